# Variant builds of /repo's current working tree + the harness binaries.
#   make -f build.mk V=<variant> [REPO=/repo] lib | bin/<name> | all
# Objects carry -MMD dependency files, so an edited source under $(REPO)
# recompiles exactly what depends on it.  Nothing here is ever taken from
# $(REPO)/_build.
REPO ?= /repo
V ?= asan
VERIF := $(dir $(abspath $(lastword $(MAKEFILE_LIST))))
B := $(VERIF)build/$(V)

COMMON := -std=c++17 -ffp-contract=off -fno-omit-frame-pointer -DMANIFOLD_VERIF \
  -I$(REPO)/include -I$(REPO)/src -I$(VERIF)harness -Wno-unused -w
SAN_ASAN := -fsanitize=address,undefined -fno-sanitize-recover=undefined

ifeq ($(V),asan)
  CXX := clang++
  FLAGS := -O1 -g $(SAN_ASAN) -DMANIFOLD_PAR=-1
  LDFLAGS := $(SAN_ASAN)
else ifeq ($(V),dbg)
  CXX := clang++
  FLAGS := -O1 -g $(SAN_ASAN) -DMANIFOLD_PAR=-1 -DMANIFOLD_DEBUG -DMANIFOLD_ASSERT
  LDFLAGS := $(SAN_ASAN)
else ifeq ($(V),fuzz)
  CXX := clang++
  FLAGS := -O1 -g $(SAN_ASAN) -fsanitize=fuzzer-no-link -DMANIFOLD_PAR=-1 -DVERIF_FUZZ_TARGET
  LDFLAGS := $(SAN_ASAN) -fsanitize=fuzzer
else ifeq ($(V),seq)
  CXX := g++
  FLAGS := -O2 -g1 -DMANIFOLD_PAR=-1
  LDFLAGS :=
else ifeq ($(V),par)
  CXX := g++
  FLAGS := -O2 -g1 -DMANIFOLD_PAR=1
  LDFLAGS := -ltbb
else ifeq ($(V),mock)
  CXX := g++
  FLAGS := -O2 -g1 -DMANIFOLD_PAR=1 -DVERIF_MOCKTBB -I$(VERIF)mocktbb
  LDFLAGS :=
else ifeq ($(V),mockasan)
  CXX := clang++
  FLAGS := -O1 -g $(SAN_ASAN) -DMANIFOLD_PAR=1 -DVERIF_MOCKTBB -I$(VERIF)mocktbb
  LDFLAGS := $(SAN_ASAN)
else ifeq ($(V),tsan)
  CXX := clang++
  FLAGS := -O1 -g -fsanitize=thread -DMANIFOLD_PAR=-1
  LDFLAGS := -fsanitize=thread
else ifeq ($(V),cbind)
  CXX := clang++
  FLAGS := -O1 -g $(SAN_ASAN) -DMANIFOLD_PAR=-1 -I$(REPO)/bindings/c/include -I$(REPO)/bindings/c
  LDFLAGS := $(SAN_ASAN)
  EXTRA_SRCS := $(wildcard $(REPO)/bindings/c/*.cpp)
else
  $(error unknown variant $(V))
endif

LIBSRCS := $(wildcard $(REPO)/src/*.cpp)
LIBOBJS := $(patsubst $(REPO)/src/%.cpp,$(B)/lib/%.o,$(LIBSRCS))
CBOBJS := $(patsubst $(REPO)/bindings/c/%.cpp,$(B)/cb/%.o,$(EXTRA_SRCS))

.PHONY: lib all
lib: $(B)/libmanifold.a

$(B)/libmanifold.a: $(LIBOBJS) $(CBOBJS)
	@rm -f $@
	@ar rcs $@ $^

$(B)/lib/%.o: $(REPO)/src/%.cpp
	@mkdir -p $(dir $@)
	$(CXX) $(COMMON) $(FLAGS) -MMD -MP -c $< -o $@

$(B)/cb/%.o: $(REPO)/bindings/c/%.cpp
	@mkdir -p $(dir $@)
	$(CXX) $(COMMON) $(FLAGS) -MMD -MP -c $< -o $@

# harness: one binary per harness/<name>.cpp, linked with the shared runner
# (the only TU that includes rapidcheck) unless the variant is `fuzz`.
$(B)/h/%.o: $(VERIF)harness/%.cpp
	@mkdir -p $(dir $@)
	$(CXX) $(COMMON) $(FLAGS) -MMD -MP -c $< -o $@

ifeq ($(V),fuzz)
$(B)/bin/%: $(B)/h/%.o $(B)/libmanifold.a
	@mkdir -p $(dir $@)
	$(CXX) $(FLAGS) $< $(B)/libmanifold.a $(LDFLAGS) -o $@
else
$(B)/bin/%: $(B)/h/%.o $(B)/h/common/runner.o $(B)/libmanifold.a
	@mkdir -p $(dir $@)
	$(CXX) $(FLAGS) $< $(B)/h/common/runner.o $(B)/libmanifold.a -lrapidcheck -lpthread $(LDFLAGS) -o $@
endif

.PRECIOUS: $(B)/h/%.o $(B)/h/common/runner.o
.SECONDARY:

-include $(LIBOBJS:.o=.d) $(CBOBJS:.o=.d) $(wildcard $(B)/h/*.d) $(wildcard $(B)/h/common/*.d)
