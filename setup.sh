#!/bin/sh
# Builds every variant + harness binary the registered checks need, from
# /repo's current working tree, offline.
cd "$(dirname "$0")" || exit 1
python3 - <<'PY'
import subprocess, sys, os
sys.path.insert(0, '.')
import checks_table
by = {}
for pid, spec in checks_table.CHECKS.items():
    for s in spec["subs"]:
        by.setdefault(s["variant"], set()).add(s["bin"])
        for extra in s.get("also_build", []):
            by.setdefault(extra["variant"], set()).add(extra["bin"])
for v, bins in by.items():
    tg = " ".join(f"{os.getcwd()}/build/{v}/bin/{b}" for b in sorted(bins))
    r = subprocess.run(f"make -s -f build.mk V={v} -j16 {tg}", shell=True)
    if r.returncode:
        sys.exit(r.returncode)
PY
