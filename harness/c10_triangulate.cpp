// C10: Triangulate/TriangulateIdx on constructively epsilon-valid polygon sets.
// Oracle = the statement: triangle count V-2o+2h, indices valid, every triangle
// CCW within 2*eps, areas sum to the polygon area, every input edge exactly
// once in input direction, every other edge paired with its reverse; same for
// allowConvex on/off; a reused PolygonTriangulator gives byte-identical output
// to a fresh one.
#include <map>

#include "common/verif.h"
#include "gen/solids.h"
#include "manifold/polygon.h"
#include "polygon_internal.h"

using namespace manifold;
using verif::Outcome;
using verif::Tape;

namespace {

struct PolySet {
  Polygons polys;
  int outers = 0, holes = 0;
  bool hasHole = false, reflex = false, collinear = false, duplicate = false;
  int depth = 0;
};

double SignedArea2(const SimplePolygon& p) {
  long double a = 0;
  for (size_t i = 0; i < p.size(); ++i) {
    const vec2 &u = p[i], &v = p[(i + 1) % p.size()];
    a += (long double)u.x * v.y - (long double)u.y * v.x;
  }
  return double(a);
}

// star polygon about c with radii in [r0,r1]; inscribed radius >= r0*cos(pi*(1+j)/n)
SimplePolygon Star(Tape& t, vec2 c, int n, double r0, double r1, double jitter) {
  SimplePolygon p(n);
  // star-shaped about c (hence simple and counter-clockwise) needs every angular gap < 180 degrees:
  // (1 + jitter) * 360 / n < 180
  jitter = std::min(jitter, 0.9 * (n / 2.0 - 1.0));
  for (int i = 0; i < n; ++i) {
    double r = t.real(r0, r1);
    double a = 2 * M_PI * (i + 0.5 - jitter / 2 + jitter * t.unit()) / n;
    p[i] = vec2(c.x + r * std::cos(a), c.y + r * std::sin(a));
  }
  return p;
}

// nested family centred at c: outer (CCW), hole inside its inscribed disc (CW),
// island inside the hole's inscribed disc (CCW), ...
void AddNested(Tape& t, PolySet& ps, vec2 c, double R, int depth) {
  double r1 = R;
  for (int lvl = 0; lvl <= depth; ++lvl) {
    int n = t.range(lvl == 0 ? 3 : 5, 14);
    // low-jitter so the inscribed radius is known
    double jitter = lvl < depth ? 0.2 : 0.8;
    int nn = lvl < depth ? std::max(n, 6) : n;
    double r0 = r1 * t.real(0.55, 0.95);
    SimplePolygon p = Star(t, c, nn, r0, r1, jitter);
    if (lvl % 2 == 1) std::reverse(p.begin(), p.end());
    ps.polys.push_back(p);
    if (lvl % 2 == 0) ++ps.outers; else { ++ps.holes; ps.hasHole = true; }
    if (lvl < depth) {
      double inscribed = r0 * std::cos(M_PI * (1 + jitter) / nn);
      r1 = inscribed * t.real(0.5, 0.9);
    }
  }
  ps.depth = std::max(ps.depth, depth);
}

// x-monotone comb: lower chain left->right then upper chain right->left (CCW)
SimplePolygon Comb(Tape& t, vec2 origin, bool lattice) {
  int n = t.range(2, 12);
  std::vector<double> xs(n + 1), lo(n + 1), hi(n + 1);
  double x = origin.x;
  for (int i = 0; i <= n; ++i) {
    xs[i] = x;
    x += lattice ? double(t.range(1, 2)) : t.real(0.2, 1.0);
    if (lattice) { lo[i] = origin.y + t.range(0, 3); hi[i] = lo[i] + t.range(1, 4) + 3; lo[i] = std::min(lo[i], origin.y + 3.0); }
    else { lo[i] = origin.y + t.real(0, 1); hi[i] = origin.y + 1.2 + t.real(0, 1.5); }
  }
  SimplePolygon p;
  for (int i = 0; i <= n; ++i) p.push_back(vec2(xs[i], lo[i]));
  for (int i = n; i >= 0; --i) p.push_back(vec2(xs[i], hi[i]));
  return p;
}

// histogram (rectilinear, many collinear/equal coordinates): columns [i,i+1] x [lo_i,hi_i]
SimplePolygon Histogram(Tape& t, vec2 origin) {
  int n = t.range(1, 10);
  std::vector<int> lo(n), hi(n);
  int l = t.range(0, 3), h = l + t.range(1, 4);
  for (int i = 0; i < n; ++i) {
    // consecutive columns overlap in an interval of positive length
    int nl = t.range(std::max(0, l - 2), h - 1), nh = t.range(std::max(nl, l) + 1, h + 2);
    if (i == 0) { nl = l; nh = h; }
    lo[i] = nl; hi[i] = nh; l = nl; h = nh;
  }
  SimplePolygon p;
  // bottom chain left to right
  for (int i = 0; i < n; ++i) {
    p.push_back(vec2(origin.x + i, origin.y + lo[i]));
    p.push_back(vec2(origin.x + i + 1, origin.y + lo[i]));
  }
  for (int i = n - 1; i >= 0; --i) {
    p.push_back(vec2(origin.x + i + 1, origin.y + hi[i]));
    p.push_back(vec2(origin.x + i, origin.y + hi[i]));
  }
  // drop exact consecutive duplicates (equal lo/hi of neighbours)
  SimplePolygon q;
  for (auto& v : p)
    if (q.empty() || q.back().x != v.x || q.back().y != v.y) q.push_back(v);
  if (q.size() > 1 && q.front().x == q.back().x && q.front().y == q.back().y) q.pop_back();
  return q;
}

PolySet GenPolys(Tape& t, std::ostream& d) {
  PolySet ps;
  int kind = t.range(0, 5);
  switch (kind) {
    case 0: {  // single star
      int n = t.range(3, 24);
      ps.polys.push_back(Star(t, vec2(0, 0), n, 0.3, 1.0, 0.8));
      ps.outers = 1;
      d << "star" << n;
      break;
    }
    case 1: {  // nested
      int depth = t.range(1, 3);
      AddNested(t, ps, vec2(0, 0), 1.0, depth);
      d << "nested-depth" << depth;
      break;
    }
    case 2: {  // several disjoint families on a grid
      int k = t.range(2, 6);
      for (int i = 0; i < k; ++i) AddNested(t, ps, vec2(2.5 * (i % 3), 2.5 * (i / 3)), 1.0, t.range(0, 2));
      d << "multi" << k;
      break;
    }
    case 3: {
      bool lat = t.flip();
      ps.polys.push_back(Comb(t, vec2(0, 0), lat));
      ps.outers = 1;
      d << (lat ? "comb-lattice" : "comb");
      break;
    }
    case 4: {
      ps.polys.push_back(Histogram(t, vec2(0, 0)));
      ps.outers = 1;
      d << "histogram";
      break;
    }
    case 5: {  // outer with several disjoint holes on a grid inside a big square-ish star
      SimplePolygon outer = Star(t, vec2(0, 0), t.range(8, 16), 6.0, 7.0, 0.2);
      ps.polys.push_back(outer);
      ps.outers = 1;
      int k = t.range(1, 5);  // holes at grid points within radius 3.5 (< 6*cos(..)=5.6-1)
      for (int i = 0; i < k; ++i) {
        vec2 c(2.4 * ((i % 3) - 1), 2.4 * ((i / 3) - 0.5));
        SimplePolygon h = Star(t, c, t.range(3, 10), 0.3, 1.0, 0.8);
        std::reverse(h.begin(), h.end());
        ps.polys.push_back(h);
        ++ps.holes;
        ps.hasHole = true;
      }
      d << "swiss" << k;
      break;
    }
  }
  // decorations that keep validity
  if (t.chance(80)) {  // insert collinear midpoints
    for (auto& p : ps.polys) {
      SimplePolygon q;
      for (size_t i = 0; i < p.size(); ++i) {
        q.push_back(p[i]);
        if (t.chance(64)) { vec2 m = (p[i] + p[(i + 1) % p.size()]) * 0.5; q.push_back(m); ps.collinear = true; }
      }
      p = q;
    }
    d << "+collinear";
  }
  return ps;
}

struct Check {
  Outcome& o;
  bool run(const PolygonsIdx& idx, size_t V, int outers, int holes, const std::vector<ivec3>& tris, double eps, double scale, const char* tag) {
    std::map<int, vec2> pos;
    for (auto& p : idx) for (auto& v : p) pos[v.idx] = v.pos;
    long expected = long(V) - 2 * outers + 2 * holes;
    if (long(tris.size()) != expected) { o.fail(std::string("tri:count-") + tag, verif::fmt("%zu triangles, expected V-2o+2h = %ld (V=%zu o=%d h=%d)", tris.size(), expected, V, outers, holes)); return false; }
    std::map<std::pair<int, int>, int> edges;
    long double area2 = 0;
    double eff = 2 * eps;
    for (auto& tr : tris) {
      for (int k = 0; k < 3; ++k)
        if (!pos.count(tr[k])) { o.fail(std::string("tri:index-") + tag, verif::fmt("triangle index %d is not an input vertex index", tr[k])); return false; }
      vec2 a = pos[tr[0]], b = pos[tr[1]], c = pos[tr[2]];
      double ar = (b.x - a.x) * (c.y - a.y) - (b.y - a.y) * (c.x - a.x);
      double base2 = std::max({la::dot(b - a, b - a), la::dot(c - a, c - a), la::dot(c - b, c - b)});
      if (ar < 0 && ar * ar > base2 * eff * eff) {
        // known finding F50: two consecutive input vertices closer than epsilon (a near-duplicate) at a reflex
        // corner can make the ear clipper emit a clockwise triangle of real size
        bool nearDup = false;
        for (auto& pl : idx) for (size_t q = 0; q < pl.size(); ++q) { vec2 u = pl[q].pos, w = pl[(q + 1) % pl.size()].pos; if (la::dot(u - w, u - w) <= eps * eps) nearDup = true; }
        if (nearDup) { o.known("F50-triangulate-near-duplicate-cw", std::string("tri:cw-near-duplicate"), verif::fmt("triangle (%d,%d,%d) is clockwise: area2=%.6g eps=%.3g", tr[0], tr[1], tr[2], ar, eps)); return false; }
      }
      if (ar < 0 && ar * ar > base2 * eff * eff) { o.fail(std::string("tri:cw-") + tag, verif::fmt("triangle (%d,%d,%d) is clockwise beyond 2*eps: area2=%.6g base=%.6g eps=%.3g", tr[0], tr[1], tr[2], ar, std::sqrt(base2), eps)); return false; }
      area2 += ar;
      for (int k = 0; k < 3; ++k) edges[{tr[k], tr[(k + 1) % 3]}]++;
    }
    long double polyArea2 = 0, perim = 0;
    std::map<std::pair<int, int>, int> inputEdges;
    for (auto& p : idx)
      for (size_t i = 0; i < p.size(); ++i) {
        const PolyVert &u = p[i], &v = p[(i + 1) % p.size()];
        polyArea2 += (long double)u.pos.x * v.pos.y - (long double)u.pos.y * v.pos.x;
        perim += la::length(v.pos - u.pos);
        inputEdges[{u.idx, v.idx}]++;
      }
    if (std::abs(double(area2 - polyArea2)) > 2 * (eps * double(perim) + 1e-12 * scale * scale)) { o.fail(std::string("tri:area-") + tag, verif::fmt("triangle areas sum to %.17g, polygon area %.17g", double(area2) / 2, double(polyArea2) / 2)); return false; }
    for (auto& e : inputEdges) {
      int fwd = edges.count(e.first) ? edges[e.first] : 0;
      auto rev = std::make_pair(e.first.second, e.first.first);
      int bwd = edges.count(rev) ? edges[rev] : 0;
      // net: each input edge once in its direction, and not cancelled
      if (fwd - bwd != e.second) { o.fail(std::string("tri:input-edge-") + tag, verif::fmt("input edge %d->%d occurs %d times forward, %d reversed (expected net %d)", e.first.first, e.first.second, fwd, bwd, e.second)); return false; }
      if (fwd != e.second) { o.fail(std::string("tri:input-edge-") + tag, verif::fmt("input edge %d->%d occurs %d times (expected exactly %d)", e.first.first, e.first.second, fwd, e.second)); return false; }
    }
    for (auto& e : edges) {
      if (inputEdges.count(e.first)) continue;
      auto rev = std::make_pair(e.first.second, e.first.first);
      int bwd = edges.count(rev) ? edges[rev] : 0;
      if (inputEdges.count(rev)) { o.fail(std::string("tri:reversed-input-edge-") + tag, verif::fmt("edge %d->%d is the reverse of an input edge", e.first.first, e.first.second)); return false; }
      if (e.second != 1 || bwd != 1) { o.fail(std::string("tri:interior-edge-") + tag, verif::fmt("interior edge %d->%d occurs %d times, reverse %d", e.first.first, e.first.second, e.second, bwd)); return false; }
    }
    return true;
  }
};

void Body(Tape& t, Outcome& o) {
  auto& d = o.desc;
  PolygonTriangulator reused;  // shared by the calls of this case only, so a case replays on its own
  int calls = t.range(1, 4);
  for (int call = 0; call < calls; ++call) {
    if (call) d << " | ";
    PolySet ps = GenPolys(t, d);
    // global similarity: scale 10^k, translation
    double k = t.chance(128) ? double(t.range(-6, 6)) : 0.0;
    double sc = std::pow(10.0, k);
    vec2 tr = t.chance(96) ? vec2(t.real(-100, 100), t.real(-100, 100)) * sc : vec2(0.0);
    d << " scale=1e" << k << " tr=(" << gen::num(tr.x) << "," << gen::num(tr.y) << ")";
    double maxAbs = 0;
    for (auto& p : ps.polys) for (auto& v : p) { v = v * sc + tr; maxAbs = std::max({maxAbs, std::abs(v.x), std::abs(v.y)}); }
    double defEps = maxAbs * 1e-12;
    // explicit epsilon (well below the smallest feature) or -1
    double eps = t.flip() ? -1.0 : defEps * std::pow(10.0, t.real(0, 3));
    double effEps = eps < 0 ? defEps : eps;
    // duplicates displaced < eps/4
    if (t.chance(64)) {
      for (auto& p : ps.polys) {
        SimplePolygon q;
        for (auto& v : p) { q.push_back(v); if (t.chance(48)) { q.push_back(v + vec2(effEps * 0.2 * t.real(-1, 1), effEps * 0.2 * t.real(-1, 1))); ps.duplicate = true; } }
        p = q;
      }
      d << "+dup";
    }
    d << " eps=" << gen::num(eps) << " contours=[";
    size_t V = 0;
    for (auto& p : ps.polys) { V += p.size(); d << p.size() << " "; }
    d << "]";
    for (auto& p : ps.polys) {
      // reflex vertex present?
      for (size_t i = 0; i < p.size(); ++i) {
        vec2 a = p[(i + p.size() - 1) % p.size()], b = p[i], c = p[(i + 1) % p.size()];
        double cr = (b.x - a.x) * (c.y - b.y) - (b.y - a.y) * (c.x - b.x);
        if ((SignedArea2(p) > 0) == (cr < 0) && std::abs(cr) > 1e-9 * sc * sc) ps.reflex = true;
      }
    }
    // index form with non-trivial index mapping
    PolygonsIdx idx;
    int base = t.flip() ? 0 : 1000, stride = t.flip() ? 1 : 3, cur = base;
    for (auto& p : ps.polys) {
      SimplePolygonIdx q;
      for (auto& v : p) { q.push_back({v, cur}); cur += stride; }
      idx.push_back(q);
    }
    PolygonsIdx plain;
    {
      int c2 = 0;
      for (auto& p : ps.polys) { SimplePolygonIdx q; for (auto& v : p) q.push_back({v, c2++}); plain.push_back(q); }
    }
    if (getenv("VERIF_DEBUG")) { for (auto& p : ps.polys) { fprintf(stderr, "POLY {"); for (auto& v : p) fprintf(stderr, "{%.17g,%.17g},", v.x, v.y); fprintf(stderr, "}\n"); } fprintf(stderr, "EPS %.17g\n", eps); }
    Check chk{o};
    for (bool allowConvex : {true, false}) {
      std::vector<ivec3> t1 = Triangulate(ps.polys, eps, allowConvex);
      if (!chk.run(plain, V, ps.outers, ps.holes, t1, effEps, maxAbs, allowConvex ? "convexOK" : "earclip")) return;
      std::vector<ivec3> t2 = TriangulateIdx(idx, eps, allowConvex);
      if (!chk.run(idx, V, ps.outers, ps.holes, t2, effEps, maxAbs, allowConvex ? "idx-convexOK" : "idx-earclip")) return;
      // reuse: the persistent triangulator must equal a fresh one, byte for byte
      HalfedgeTriangulation fresh = TriangulateIdxHalfedges(idx, eps, allowConvex);
      HalfedgeTriangulation again = TriangulateIdxHalfedges(idx, eps, allowConvex, reused);
      if (fresh.epsilon != again.epsilon) {
        o.fail("tri:reuse-epsilon", verif::fmt("a reused PolygonTriangulator worked with epsilon %.17g, a fresh one with %.17g", again.epsilon, fresh.epsilon));
        return;
      }
      auto a = fresh.Triangles(), b = again.Triangles();
      if (a.size() != b.size() || (a.size() && memcmp(a.data(), b.data(), a.size() * sizeof(ivec3)) != 0)) {
        o.fail("tri:reuse", "a reused PolygonTriangulator returned different triangles than a fresh one");
        return;
      }
    }
    if (ps.hasHole) o.cls("hole");
    if (ps.reflex) o.cls("reflex");
    if (ps.collinear) o.cls("collinear");
    if (ps.duplicate) o.cls("duplicate");
    if (k != 0) o.cls("scaled");
    o.cls("depth" + std::to_string(ps.depth));
    if (ps.hasHole || (ps.reflex && V >= 8)) o.nontrivial = true;
  }
  o.fingerprint = verif::fnv_str(o.desc.str()) ^ verif::fnv(t.d, t.n);
}
}  // namespace

int main(int argc, char** argv) {
  verif::Config cfg{"C10", "triangulate",
                    "constructively epsilon-valid polygon sets: jittered stars, concentric nesting to depth 3 (hole inside inscribed disc), several disjoint families, x-monotone combs (real and lattice), rectilinear histograms, outer with several holes; decorations: collinear midpoints, duplicates displaced <eps/4, scale 10^[-6,6], translation, explicit eps or -1, remapped indices; 1-4 calls per case (independent scales) sharing one PolygonTriangulator, compared with fresh ones incl. the effective epsilon; non-trivial = has a hole, or a reflex vertex and >=8 vertices; distinct = hash of tape",
                    16};
  return verif::run_main(argc, argv, cfg, Body);
}
