// Shared generators: decode solids, poses and lattice boxes from a tape.
// Every decoder appends an executable-looking rendering to `desc`.
#pragma once
#include <cmath>
#include <sstream>
#include <string>
#include <vector>

#include "common/verif.h"
#include "manifold/cross_section.h"
#include "manifold/manifold.h"

namespace gen {
using manifold::Manifold;
using manifold::vec2;
using manifold::vec3;
using verif::Tape;

inline std::string num(double x) { char b[40]; snprintf(b, sizeof b, "%.17g", x); return b; }

// star-shaped CCW polygon about the origin, radii in [rmin,rmax]
inline manifold::SimplePolygon GenStar(Tape& t, int nMin, int nMax, double rmin, double rmax, std::ostream& d, double jitter = 0.7) {
  int n = t.range(nMin, nMax);
  manifold::SimplePolygon p(n);
  jitter = std::min(jitter, 0.9 * (n / 2.0 - 1.0));  // every angular gap < 180 degrees: star-shaped, simple, CCW
  d << "star" << n << "[";
  for (int i = 0; i < n; ++i) {
    double r = t.real(rmin, rmax);
    double a = 2 * M_PI * (i + 0.5 - jitter / 2 + jitter * t.unit()) / n;
    p[i] = vec2(r * std::cos(a), r * std::sin(a));
    d << (i ? "," : "") << num(p[i].x) << " " << num(p[i].y);
  }
  d << "]";
  return p;
}

// A primitive of roughly unit size (extent 0.5 .. 2), epsilon-valid by
// construction.  kinds: 0 cube 1 tet 2 sphere 3 cylinder/cone 4 extrude-star
// 5 revolve 6 extrude-with-hole
inline Manifold GenPrimitive(Tape& t, std::ostream& d, int maxKind = 6) {
  int kind = t.range(0, maxKind);
  switch (kind) {
    default:
    case 0: {
      vec3 s(t.real(0.5, 2), t.real(0.5, 2), t.real(0.5, 2));
      bool c = t.flip();
      d << "Cube(" << num(s.x) << "," << num(s.y) << "," << num(s.z) << "," << c << ")";
      return Manifold::Cube(s, c);
    }
    case 1: {
      double s = t.real(0.5, 1.5);
      d << "Tetrahedron().Scale(" << num(s) << ")";
      return Manifold::Tetrahedron().Scale(vec3(s));
    }
    case 2: {
      double r = t.real(0.4, 1.2);
      int seg = 4 * t.range(1, 5);
      d << "Sphere(" << num(r) << "," << seg << ")";
      return Manifold::Sphere(r, seg);
    }
    case 3: {
      double h = t.real(0.5, 2), r0 = t.real(0.3, 1), r1 = t.flip() ? t.real(0.0, 1) : -1.0;
      int seg = t.range(3, 20);
      bool c = t.flip();
      d << "Cylinder(" << num(h) << "," << num(r0) << "," << num(r1) << "," << seg << "," << c << ")";
      return Manifold::Cylinder(h, r0, r1, seg, c);
    }
    case 4: {
      d << "Extrude(";
      // a twisted extrusion is only epsilon-valid (not self-intersecting) for
      // a mild profile and a small twist per division; construct it that way
      bool twisted = t.flip();
      auto p = twisted ? GenStar(t, 3, 9, 0.75, 1.1, d, 0.3) : GenStar(t, 3, 9, 0.4, 1.2, d);
      double h = t.real(0.4, 1.5);
      int div = twisted ? t.range(1, 4) : t.range(0, 3);
      double tw = twisted ? t.real(-8, 8) * (div + 1) : 0.0;
      vec2 sc = t.flip() ? vec2(t.real(0.3, 1.3), t.real(0.3, 1.3)) : vec2(1.0);
      d << "," << num(h) << "," << div << "," << num(tw) << ",(" << num(sc.x) << "," << num(sc.y) << "))";
      return Manifold::Extrude({p}, h, div, tw, sc);
    }
    case 5: {
      // profile strictly right of the axis: a star shifted to x>0
      d << "Revolve(";
      auto p = GenStar(t, 3, 7, 0.2, 0.5, d);
      double off = t.real(0.6, 1.0);
      for (auto& q : p) q.x += off;
      int seg = t.range(3, 16);
      double deg = t.flip() ? 360.0 : t.real(30, 330);
      d << "+x" << num(off) << "," << seg << "," << num(deg) << ")";
      return Manifold::Revolve({p}, seg, deg);
    }
    case 6: {
      d << "ExtrudeHole(";
      // outer inscribed radius >= 0.9*cos(1.3*pi/6) = 0.70 > hole radii
      auto outer = GenStar(t, 6, 9, 0.9, 1.3, d, 0.3);
      auto hole = GenStar(t, 3, 6, 0.2, 0.6, d);
      std::reverse(hole.begin(), hole.end());
      double h = t.real(0.4, 1.5);
      d << "," << num(h) << ")";
      return Manifold::Extrude({outer, hole}, h);
    }
  }
}

// generic rigid-ish pose; `salt` decorrelates operands so that an all-zero
// tape still yields distinct, non-aligned poses (general position by
// construction, never by filtering)
inline Manifold GenPose(Tape& t, const Manifold& m, int salt, std::ostream& d, double spread = 0.8) {
  double rx = 11.3 + 37.1 * salt + 360 * t.unit();
  double ry = 23.9 + 53.7 * salt + 360 * t.unit();
  double rz = 41.7 + 71.3 * salt + 360 * t.unit();
  vec3 tr(0.0137 + 0.113 * salt + t.real(-spread, spread), 0.0291 - 0.071 * salt + t.real(-spread, spread),
          0.0173 + 0.057 * salt + t.real(-spread, spread));
  Manifold r = m;
  if (t.chance(48)) {
    vec3 s(t.real(0.6, 1.5), t.real(0.6, 1.5), t.real(0.6, 1.5));
    d << ".Scale(" << num(s.x) << "," << num(s.y) << "," << num(s.z) << ")";
    r = r.Scale(s);
  }
  if (t.chance(32)) {
    vec3 n(t.real(-1, 1), t.real(-1, 1), 0.3 + t.unit());
    d << ".Mirror(" << num(n.x) << "," << num(n.y) << "," << num(n.z) << ")";
    r = r.Mirror(n);
  }
  d << ".Rotate(" << num(rx) << "," << num(ry) << "," << num(rz) << ").Translate(" << num(tr.x) << "," << num(tr.y) << "," << num(tr.z) << ")";
  return r.Rotate(rx, ry, rz).Translate(tr);
}

// ---------------- integer lattice boxes ----------------
struct IBox {
  int lo[3], hi[3];
};
inline IBox GenIBox(Tape& t, int G, std::ostream& d) {
  IBox b;
  for (int k = 0; k < 3; ++k) {
    int a = t.range(0, G - 1);
    int len = t.range(1, G - a);
    b.lo[k] = a;
    b.hi[k] = a + len;
  }
  d << "Box[" << b.lo[0] << "," << b.lo[1] << "," << b.lo[2] << ":" << b.hi[0] << "," << b.hi[1] << "," << b.hi[2] << "]";
  return b;
}
inline Manifold MakeIBox(const IBox& b, int how = 0) {
  vec3 size(b.hi[0] - b.lo[0], b.hi[1] - b.lo[1], b.hi[2] - b.lo[2]);
  vec3 lo(b.lo[0], b.lo[1], b.lo[2]);
  switch (how % 3) {
    default:
    case 0: return Manifold::Cube(size).Translate(lo);
    case 1:  // unit cube scaled then moved: a different transform chain
      return Manifold::Cube().Scale(size).Translate(lo);
    case 2: {  // rotate by 90 about z: (x,y)->(-y,x); size (sy,sx,sz), then shift
      Manifold c = Manifold::Cube(vec3(size.y, size.x, size.z)).Rotate(0, 0, 90);
            return c.Translate(vec3(lo.x + size.x, lo.y, lo.z));
    }
  }
}

}  // namespace gen
