// Stateful program generator: a pool of live Manifolds and one random public
// operation per step.  Used by C01 (topology after every step), C05 (value
// semantics), C04 (determinism), C08 (round trips), C15 (cancellation).
// All arguments are valid/documented ones; degenerate *geometry* (coincident
// copies, touching faces, flattening scales, folding warps, self-overlapping
// Compose) is produced on purpose when `degenerate` is set.
#pragma once
#include <algorithm>
#include <functional>

#include "gen/solids.h"

namespace gen {
using manifold::MeshGL;
using manifold::MeshGL64;
using manifold::OpType;
namespace la = manifold::la;

struct Val {
  Manifold m;
  double est = 0;        // estimated triangle count (upper-ish bound)
  bool tangents = false; // produced by a Smooth* op (and not refined since)
  int props = 0;         // number of property channels set by the harness
  bool normals = false;  // channels 0..2 hold normals
};

struct ProgOptions {
  bool degenerate = true;     // allow epsilon-invalid geometry on purpose
  bool forceSizes = true;     // refresh estimates with NumTri() (forces evaluation)
  double maxTris = 4000;      // size cap for results
  bool allowSmooth = true;    // tangent-producing ops
  bool allowRefine = true;
  bool allowMinkowski = true;
  bool allowLevelSet = true;
  bool allowRefineOnTangents = true;  // exclusion rule switch (known finding)
  bool allowImport = true;
  bool allowSimplify = true;
  bool allowWarp = true;
  bool allowDecompose = true;
  bool allowHull = true;
  bool allowCompose = true;
  bool allowProps = true;
  bool keepNormalsValid = false;  // never overwrite channels recorded as normals (documented as the caller's job)
};

struct StepInfo {
  std::string op;
  std::vector<int> inputs;  // pool indices read
  int firstOut = -1, numOut = 0;
  bool topologyChanging = false;
  bool skippedByRule = false;
  std::string rule;
};

struct Pool {
  std::vector<Val> v;
  int push(const Manifold& m, double est, bool tangents = false, int props = 0, bool normals = false) {
    v.push_back({m, est, tangents, props, normals});
    return int(v.size()) - 1;
  }
};

inline int PickIdx(Tape& t, const Pool& p) { return t.range(0, int(p.v.size()) - 1); }

inline Val GenLeaf(Tape& t, std::ostream& d, bool lattice) {
  Val r;
  if (lattice) {
    IBox b = GenIBox(t, 4, d);
    r.m = MakeIBox(b, t.range(0, 2));
  } else {
    Manifold p = GenPrimitive(t, d);
    r.m = GenPose(t, p, t.range(0, 7), d, 0.6);
  }
  r.est = double(r.m.NumTri());
  return r;
}

// one step; appends outputs to the pool
inline StepInfo Step(Tape& t, Pool& pool, std::ostream& d, const ProgOptions& opt) {
  StepInfo si;
  auto out = [&](const Manifold& m, double est, bool tangents = false, int props = 0, bool normals = false) {
    if (opt.forceSizes) est = double(m.NumTri());
    int i = pool.push(m, est, tangents, props, normals);
    if (si.firstOut < 0) si.firstOut = i;
    ++si.numOut;
  };
  if (pool.v.empty()) {
    d << "v0=";
    Val l = GenLeaf(t, d, t.chance(64));
    si.op = "leaf";
    out(l.m, l.est);
    return si;
  }
  for (int attempt = 0; attempt < 6; ++attempt) {
    int op = t.range(0, 31);
    int ia = PickIdx(t, pool), ib = PickIdx(t, pool);
    const Val a = pool.v[ia];
    const Val b = pool.v[ib];
    int n = int(pool.v.size());
    auto hdr = [&](const char* name) { d << " ; v" << n << "=" << name; si.op = name; };
    switch (op) {
      case 0: case 1: {
        hdr("leaf:");
        Val l = GenLeaf(t, d, op == 1);
        out(l.m, l.est);
        return si;
      }
      case 2: case 3: case 4: case 5: {
        if (a.est + b.est > opt.maxTris) break;
        OpType o = OpType(t.range(0, 2));
        hdr("Boolean"); d << int(o) << "(v" << ia << ",v" << ib << ")";
        si.inputs = {ia, ib}; si.topologyChanging = true;
        out(a.m.Boolean(b.m, o), (a.est + b.est) * 1.5 + 16, false, std::max(a.props, b.props), a.normals || b.normals);
        return si;
      }
      case 6: {
        int k = t.range(2, 4);
        std::vector<Manifold> ms;
        double est = 0;
        std::vector<int> idx;
        int bprops = 0; bool bnormals = false;
        for (int i = 0; i < k; ++i) { int j = PickIdx(t, pool); idx.push_back(j); ms.push_back(pool.v[j].m); est += pool.v[j].est; bprops = std::max(bprops, pool.v[j].props); bnormals = bnormals || pool.v[j].normals; }
        if (est > opt.maxTris) break;
        OpType o = OpType(t.range(0, 2));
        hdr("Batch"); d << int(o) << "(";
        for (int j : idx) d << "v" << j << " ";
        d << ")";
        si.inputs = idx; si.topologyChanging = true;
        out(Manifold::BatchBoolean(ms, o), est * 1.5 + 16, false, bprops, bnormals);
        return si;
      }
      case 7: {
        if (a.est + b.est > opt.maxTris) break;
        hdr("Split"); d << "(v" << ia << ",v" << ib << ")";
        si.inputs = {ia, ib}; si.topologyChanging = true;
        auto pr = a.m.Split(b.m);
        out(pr.first, (a.est + b.est) * 1.5 + 16, false, std::max(a.props, b.props), a.normals || b.normals);
        out(pr.second, (a.est + b.est) * 1.5 + 16, false, std::max(a.props, b.props), a.normals || b.normals);
        return si;
      }
      case 8: {
        if (a.est > opt.maxTris) break;
        vec3 nrm(t.real(-1, 1), t.real(-1, 1), 0.2 + t.unit());
        bool axis = opt.degenerate && t.chance(64);
        if (axis) nrm = vec3(0, 0, 1);
        double off = axis ? double(t.range(-1, 4)) : t.real(-1, 1);
        bool trim = t.flip();
        hdr(trim ? "TrimByPlane" : "SplitByPlane"); d << "(v" << ia << ",(" << num(nrm.x) << "," << num(nrm.y) << "," << num(nrm.z) << ")," << num(off) << ")";
        si.inputs = {ia}; si.topologyChanging = true;
        if (trim) out(a.m.TrimByPlane(nrm, off), a.est * 1.5 + 16, false, a.props, a.normals);
        else { auto pr = a.m.SplitByPlane(nrm, off); out(pr.first, a.est * 1.5 + 16, false, a.props, a.normals); out(pr.second, a.est * 1.5 + 16, false, a.props, a.normals); }
        return si;
      }
      case 9: case 10: {
        int k = t.range(0, 5);
        si.inputs = {ia};
        if (k == 0) { vec3 v(t.real(-1, 1), t.real(-1, 1), t.real(-1, 1)); if (opt.degenerate && t.chance(64)) v = vec3(t.range(-2, 2), t.range(-2, 2), t.range(-2, 2));
          hdr("Translate"); d << "(v" << ia << "," << num(v.x) << "," << num(v.y) << "," << num(v.z) << ")"; out(a.m.Translate(v), a.est, a.tangents, a.props, a.normals); }
        else if (k == 1) { vec3 r(t.real(0, 360), t.real(0, 360), t.real(0, 360)); if (t.chance(64)) r = vec3(90.0 * t.range(0, 3), 90.0 * t.range(0, 3), 90.0 * t.range(0, 3));
          hdr("Rotate"); d << "(v" << ia << "," << num(r.x) << "," << num(r.y) << "," << num(r.z) << ")"; out(a.m.Rotate(r.x, r.y, r.z), a.est, a.tangents, a.props, a.normals); }
        else if (k == 2) { vec3 s(t.real(0.3, 2), t.real(0.3, 2), t.real(0.3, 2)); if (t.chance(48)) s = vec3(t.real(0.3, 2)); if (opt.degenerate && t.chance(24)) s[t.range(0, 2)] = 0; if (t.chance(32)) s[t.range(0, 2)] *= -1;
          hdr("Scale"); d << "(v" << ia << "," << num(s.x) << "," << num(s.y) << "," << num(s.z) << ")"; out(a.m.Scale(s), a.est, a.tangents, a.props, a.normals); }
        else if (k == 3) { vec3 m(t.real(-1, 1), t.real(-1, 1), t.real(-1, 1)); if (t.chance(64)) { m = vec3(0.0); m[t.range(0, 2)] = 1; }
          hdr("Mirror"); d << "(v" << ia << "," << num(m.x) << "," << num(m.y) << "," << num(m.z) << ")"; out(a.m.Mirror(m), a.est, a.tangents, a.props, a.normals); }
        else { manifold::mat3x4 M; for (int c = 0; c < 4; ++c) for (int r = 0; r < 3; ++r) M[c][r] = (c == r ? 1.0 : 0.0) + t.real(-0.5, 0.5);
          hdr("Transform"); d << "(v" << ia << ",["; for (int c = 0; c < 4; ++c) for (int r = 0; r < 3; ++r) d << num(M[c][r]) << " "; d << "])"; out(a.m.Transform(M), a.est, a.tangents, a.props, a.normals); }
        return si;
      }
      case 11: {
        if (!opt.allowWarp) break;
        double amp = t.real(0.01, 0.15), f = t.real(0.5, 3);
        bool fold = opt.degenerate && t.chance(40);
        if (fold) amp = t.real(0.5, 2);
        bool batch = t.flip();
        hdr(batch ? "WarpBatch" : "Warp"); d << "(v" << ia << ",amp=" << num(amp) << ",f=" << num(f) << ")";
        si.inputs = {ia};
        auto fn = [amp, f](vec3& p) { vec3 q = p; p.x += amp * std::sin(f * q.y + 0.3); p.y += amp * std::sin(f * q.z + 1.1); p.z += amp * std::sin(f * q.x + 2.3); };
        if (batch) out(a.m.WarpBatch([fn](manifold::VecView<vec3> vs) { for (auto& p : vs) fn(p); }), a.est, false, a.props, a.normals);
        else out(a.m.Warp(fn), a.est, false, a.props, a.normals);
        return si;
      }
      case 12: {
        if (!opt.allowProps) break;
        if (opt.keepNormalsValid && a.normals) break;
        int np = t.range(0, 4);
        hdr("SetProperties"); d << "(v" << ia << "," << np << ")";
        si.inputs = {ia};
        bool nullf = t.chance(24);
        if (nullf) { d << "null"; out(a.m.SetProperties(np, nullptr), a.est, a.tangents, np); }
        else out(a.m.SetProperties(np, [np](double* o, vec3 p, const double*) { for (int i = 0; i < np; ++i) o[i] = (i + 1) * p.x + 0.5 * p.y - (i + 0.25) * p.z + i; }), a.est, a.tangents, np);
        return si;
      }
      case 13: {
        if (!opt.allowProps) break;
        int idx = t.chance(64) ? t.range(0, 2) : 0;
        if (opt.keepNormalsValid && a.normals) idx = 0;
        double ang = t.real(0, 180);
        hdr("CalculateNormals"); d << "(v" << ia << "," << idx << "," << num(ang) << ")";
        si.inputs = {ia};
        out(a.m.CalculateNormals(idx, ang), a.est, a.tangents, std::max(a.props, idx + 3), idx == 0);
        return si;
      }
      case 14: {
        if (!opt.allowProps) break;
        int g = t.range(-1, 3), mn = t.range(-1, 3);
        if (opt.keepNormalsValid && a.normals) { if (g >= 0) g += 3; if (mn >= 0) mn += 3; }
        hdr("CalculateCurvature"); d << "(v" << ia << "," << g << "," << mn << ")";
        si.inputs = {ia};
        out(a.m.CalculateCurvature(g, mn), a.est, a.tangents, std::max({a.props, g + 1, mn + 1}));
        return si;
      }
      case 15: {
        hdr("AsOriginal"); d << "(v" << ia << ")";
        si.inputs = {ia};
        out(a.m.AsOriginal(), a.est, a.tangents, a.props, a.normals);
        return si;
      }
      case 16: {
        if (!opt.allowSimplify) break;
        double tol = t.chance(96) ? t.real(0.0, 0.2) : std::pow(10.0, t.real(-9, -2));
        bool simp = t.flip();
        hdr(simp ? "Simplify" : "SetTolerance"); d << "(v" << ia << "," << num(tol) << ")";
        si.inputs = {ia}; si.topologyChanging = true;
        out(simp ? a.m.Simplify(tol) : a.m.SetTolerance(tol), a.est, false, a.props, a.normals);
        return si;
      }
      case 17: case 18: {
        if (!opt.allowRefine) break;
        if (a.tangents && !opt.allowRefineOnTangents) { si.skippedByRule = true; si.rule = "no-refine-on-tangents"; break; }
        int k = t.range(0, 2);
        si.inputs = {ia}; si.topologyChanging = true;
        if (k == 0) {
          int nn = t.range(1, 5);
          if (a.est * nn * nn > opt.maxTris) break;
          hdr("Refine"); d << "(v" << ia << "," << nn << ")";
          out(a.m.Refine(nn), a.est * nn * nn, false, a.props, a.normals);
        } else if (k == 1) {
          double len = t.real(0.15, 1.5);
          double mult = (3.0 / len) * (3.0 / len);
          if (a.est * mult > 4 * opt.maxTris) break;
          hdr("RefineToLength"); d << "(v" << ia << "," << num(len) << ")";
          out(a.m.RefineToLength(len), a.est * mult, false, a.props, a.normals);
        } else {
          double tol = t.real(0.01, 0.2);
          if (a.est * 60 > 4 * opt.maxTris) break;
          hdr("RefineToTolerance"); d << "(v" << ia << "," << num(tol) << ")";
          out(a.m.RefineToTolerance(tol), a.est * 60, false, a.props, a.normals);
        }
        return si;
      }
      case 19: case 20: {
        if (!opt.allowSmooth) break;
        if (a.est > opt.maxTris / 4) break;
        int k = t.range(0, 1);
        si.inputs = {ia}; si.topologyChanging = true;
        if (k == 0) {
          double ang = t.real(0, 180), sm = t.chance(96) ? t.unit() : 0.0;
          hdr("SmoothOut"); d << "(v" << ia << "," << num(ang) << "," << num(sm) << ")";
          out(a.m.SmoothOut(ang, sm), a.est, true, a.props, a.normals);
        } else {
          hdr("CalcNormals+SmoothByNormals"); d << "(v" << ia << ")";
          out(a.m.CalculateNormals(0, t.real(20, 90)).SmoothByNormals(0), a.est, true, std::max(a.props, 3), true);
        }
        return si;
      }
      case 21: {
        if (!opt.allowHull) break;
        bool multi = t.flip();
        si.topologyChanging = true;
        if (multi) { hdr("Hull"); d << "({v" << ia << ",v" << ib << "})"; si.inputs = {ia, ib}; out(Manifold::Hull({a.m, b.m}), a.est + b.est); }
        else { hdr("Hull"); d << "(v" << ia << ")"; si.inputs = {ia}; out(a.m.Hull(), a.est); }
        return si;
      }
      case 22: {
        if (!opt.allowMinkowski) break;
        if (a.est > 60 || b.est > 60 || a.est * b.est > 1500) break;
        // the estimates can be far too low after plane cuts of concave solids; Minkowski evaluates its operands anyway
        if (a.m.NumTri() > 80 || b.m.NumTri() > 80 || a.m.NumTri() * b.m.NumTri() > 2000) break;
        bool sum = t.flip();
        hdr(sum ? "MinkowskiSum" : "MinkowskiDifference"); d << "(v" << ia << ",v" << ib << ")";
        si.inputs = {ia, ib}; si.topologyChanging = true;
        out(sum ? a.m.MinkowskiSum(b.m) : a.m.MinkowskiDifference(b.m), a.est * b.est * 2 + 50);
        return si;
      }
      case 23: {
        if (!opt.allowDecompose) break;
        hdr("Decompose"); d << "(v" << ia << ")";
        si.inputs = {ia}; si.topologyChanging = true;
        auto parts = a.m.Decompose();
        d << "->" << parts.size();
        int k = 0;
        for (auto& p : parts) { if (k++ >= 4) break; out(p, a.est, false, a.props, a.normals); }
        if (parts.empty()) out(Manifold(), 0);
        return si;
      }
      case 24: {
        if (!opt.allowCompose || !opt.degenerate) break;
        if (a.est + b.est > opt.maxTris) break;
        hdr("Compose"); d << "({v" << ia << ",v" << ib << "})";
        si.inputs = {ia, ib};
#pragma GCC diagnostic push
#pragma GCC diagnostic ignored "-Wdeprecated-declarations"
        out(Manifold::Compose({a.m, b.m}), a.est + b.est, false, std::max(a.props, b.props), a.normals || b.normals);
#pragma GCC diagnostic pop
        return si;
      }
      case 25: {
        hdr("copy"); d << "(v" << ia << ")";
        si.inputs = {ia};
        Manifold c = a.m;
        out(c, a.est, a.tangents, a.props, a.normals);
        return si;
      }
      case 26: {
        if (!opt.allowImport) break;
        bool f32 = t.flip();
        hdr(f32 ? "Reimport32" : "Reimport64"); d << "(v" << ia << ")";
        si.inputs = {ia}; si.topologyChanging = true;
        if (f32) out(Manifold(a.m.GetMeshGL()), a.est, a.tangents, a.props, a.normals);
        else out(Manifold(a.m.GetMeshGL64()), a.est, a.tangents, a.props, a.normals);
        return si;
      }
      case 27: {
        if (!opt.allowLevelSet) break;
        double r = t.real(0.5, 1.0), edge = t.real(0.25, 0.6), level = t.real(-0.1, 0.1);
        int shape = t.range(0, 2);
        double tol = t.chance(64) ? t.real(0.001, 0.05) : -1.0;
        hdr("LevelSet"); d << "(shape" << shape << ",r=" << num(r) << ",edge=" << num(edge) << ",level=" << num(level) << ",tol=" << num(tol) << ")";
        si.topologyChanging = true;
        auto sdf = [r, shape](vec3 p) {
          double s = r - la::length(p);
          if (shape == 1) s = std::min(s, 0.3 - p.z);                                  // cut by a plane
          if (shape == 2) s = std::max(s, r * 0.7 - la::length(p - vec3(0.8, 0, 0)));  // union of two balls
          return s;
        };
        out(Manifold::LevelSet(sdf, manifold::Box(vec3(-2.0), vec3(2.0)), edge, level, tol), 3000);
        return si;
      }
      case 28: {
        if (!opt.allowSmooth || a.est > opt.maxTris / 4) break;
        MeshGL64 g = a.m.GetMeshGL64();
        if (!g.halfedgeTangent.empty()) break;  // documented: must not already carry tangents
        std::vector<manifold::Smoothness> sharp;
        int k = t.range(0, 3);
        size_t nh = g.triVerts.size();
        for (int i = 0; i < k && nh > 0; ++i) sharp.push_back({size_t(t.range(0, int(std::min<size_t>(nh, 60000)) - 1)), t.chance(128) ? 0.0 : t.unit()});
        hdr("Smooth"); d << "(mesh(v" << ia << "),sharp" << k << ")";
        si.inputs = {ia}; si.topologyChanging = true;
        out(Manifold::Smooth(g, sharp), a.est, true, a.props, a.normals);
        return si;
      }
      case 29: {
        // coincident geometry on purpose: operate a value against a copy of itself
        if (!opt.degenerate || 2 * a.est > opt.maxTris) break;
        OpType o = OpType(t.range(0, 2));
        int k = t.range(0, 2);
        Manifold other = k == 0 ? a.m : k == 1 ? a.m.Translate(vec3(t.range(-1, 1), 0, 0)) : a.m.Rotate(0, 0, 90.0 * t.range(1, 3));
        hdr("SelfBoolean"); d << int(o) << "(v" << ia << ",variant" << k << ")";
        si.inputs = {ia}; si.topologyChanging = true;
        out(a.m.Boolean(other, o), a.est * 3 + 16, false, a.props, a.normals);
        return si;
      }
      case 30: {
        if (!opt.allowHull) break;
        int np = t.range(0, 24);
        std::vector<vec3> pts;
        bool lat = t.flip();
        for (int i = 0; i < np; ++i) pts.push_back(lat ? vec3(t.range(0, 3), t.range(0, 3), t.range(0, 3)) : vec3(t.real(-1, 1), t.real(-1, 1), t.real(-1, 1)));
        hdr("HullPts"); d << "(";
        for (auto& q : pts) d << "(" << num(q.x) << "," << num(q.y) << "," << num(q.z) << ")";
        d << ")";
        si.topologyChanging = true;
        out(Manifold::Hull(pts), np * 2.0);
        return si;
      }
      case 31: {
        // Extrude/Revolve of generated polygons (incl. axis-crossing revolve)
        bool rev = t.flip();
        std::ostringstream tmp;
        auto p = GenStar(t, 3, 10, 0.3, 1.0, tmp);
        if (rev) {
          double off = t.real(-0.5, 1.0);  // may cross the axis: documented as clipped
          for (auto& q : p) q.x += off;
          int seg = t.range(3, 12);
          double deg = t.flip() ? 360.0 : t.real(10, 350);
          hdr("Revolve"); d << "(" << tmp.str() << "+x" << num(off) << "," << seg << "," << num(deg) << ")";
          out(Manifold::Revolve({p}, seg, deg), 400);
        } else {
          // 1-3 contours: the star, optionally a second disjoint star and/or a hole; cone tops included
          manifold::Polygons ps{p};
          if (t.chance(96)) { auto q = GenStar(t, 3, 8, 0.3, 1.0, tmp); for (auto& v : q) v.x += 3.0; ps.push_back(q); }
          if (t.chance(64)) { ps[0] = GenStar(t, 6, 9, 0.9, 1.3, tmp, 0.3); auto hl = GenStar(t, 3, 6, 0.2, 0.6, tmp); std::reverse(hl.begin(), hl.end()); ps.push_back(hl); }
          vec2 top = t.chance(80) ? vec2(0.0) : vec2(t.real(0, 1.5), t.real(0, 1.5));
          hdr("Extrude"); d << "(" << ps.size() << " contours: " << tmp.str() << ", top=(" << num(top.x) << "," << num(top.y) << "))";
          out(Manifold::Extrude(ps, t.real(0.2, 1.5), t.range(0, 4), t.real(-90, 90), top), 600);
        }
        si.topologyChanging = true;
        return si;
      }
    }
  }
  // fallback: always possible
  d << " ; v" << pool.v.size() << "=leaf:";
  Val l = GenLeaf(t, d, false);
  si.op = "leaf";
  out(l.m, l.est);
  return si;
}

}  // namespace gen
