// C13 (algorithms): every primitive of the internal parallel layer, called with
// ExecutionPolicy::Par explicitly so the parallel body runs at every length,
// equals the sequential standard algorithm byte for byte.  Built twice:
//  * variant `mock`  (-DVERIF_MOCKTBB): the schedule (range splits, chunk order,
//    worker slots, reduce/scan body splitting, invoke order, arena width) is a
//    generated part of the case;
//  * variant `par`: real oneTBB with a generated worker count.
#include <numeric>

#include "common/verif.h"
#include "parallel.h"
#if !defined(VERIF_MOCKTBB)
#include <tbb/global_control.h>
#endif

using namespace manifold;
using verif::Outcome;
using verif::Tape;

namespace {

size_t GenLength(Tape& t) {
  static const size_t special[] = {0, 1, 2, 3, 7, 255, 256, 257, 9999, 10000, 10001, 19999, 20000, 20001, 39999, 40000, 40001, 65535, 65536, 65537, 131072, 131073};
  int k = t.range(0, 9);
  if (k <= 3) return special[t.range(0, int(sizeof special / sizeof special[0]) - 1)];
  if (k <= 6) return size_t(t.range(0, 50000));
  if (k <= 8) return size_t(t.range(0, 300));
  return size_t(t.range(100000, 400000));
}

struct Rec {  // key + payload for stability checks; trivially destructible
  int key;
  uint32_t payload;
  bool operator==(const Rec& o) const { return key == o.key && payload == o.payload; }
};

template <class T>
std::vector<T> GenInts(Tape& t, size_t n, int style) {
  std::vector<T> v(n);
  // cheap deterministic stream seeded from the tape (the tape itself is too short for 4e5 values)
  uint64_t x = t.u64() | 1;
  auto next = [&]() { x ^= x << 13; x ^= x >> 7; x ^= x << 17; return x; };
  for (size_t i = 0; i < n; ++i) {
    uint64_t r = next();
    switch (style) {
      case 0: v[i] = T(r % 7); break;                        // heavy duplication
      case 1: v[i] = T(r); break;                            // full range (incl. negatives for signed T)
      case 2: v[i] = T(i); break;                            // sorted
      case 3: v[i] = T(n - i); break;                        // reversed
      case 4: v[i] = T((r % 3 == 0) ? (r >> 8) : (r % 256)); break;
      default: v[i] = T(r % 1000); break;
    }
  }
  return v;
}

template <class V>
bool Same(const V& a, const V& b) { return a.size() == b.size() && (a.empty() || memcmp(a.data(), b.data(), a.size() * sizeof(a[0])) == 0); }

template <class T>
bool SortCase(Tape& t, Outcome& o, size_t n, int style, const char* name) {
  std::vector<T> a = GenInts<T>(t, n, style), b = a;
  stable_sort(ExecutionPolicy::Par, a.data(), a.data() + a.size());
  std::stable_sort(b.begin(), b.end());
  if (!Same(a, b)) {
    size_t i = 0;
    while (i < n && a[i] == b[i]) ++i;
    o.fail(std::string("parallel:stable_sort-") + name, verif::fmt("n=%zu style=%d: first difference at %zu", n, style, i));
    return false;
  }
  return true;
}

void Body(Tape& t, Outcome& o) {
  auto& d = o.desc;
  int alg = t.range(0, 24);
  size_t n = GenLength(t);
  int style = t.range(0, 5);
  uint64_t contentSeed = 0;
#if defined(VERIF_MOCKTBB)
  int workers = t.range(1, 16);
  size_t schedLen = size_t(t.range(0, 400));
  std::vector<uint8_t> sb(schedLen);
  for (auto& x : sb) x = uint8_t(t.byte());
  mocktbb::sched().reset(sb.data(), sb.size(), workers);
  d << "mock workers=" << workers << " schedule=" << schedLen << "B ";
#else
  static const int counts[] = {1, 2, 3, 5, 8, 16};
  int workers = counts[t.range(0, 5)];
  tbb::global_control gc(tbb::global_control::max_allowed_parallelism, workers);
  d << "tbb workers=" << workers << " ";
#endif
  (void)contentSeed;
  const auto P = ExecutionPolicy::Par;
  d << "alg" << alg << " n=" << n << " style=" << style;
  auto fail = [&](const char* name) { o.fail(std::string("parallel:") + name, verif::fmt("n=%zu style=%d differs from the sequential standard algorithm", n, style)); };
  switch (alg) {
    case 0: { if (!SortCase<uint32_t>(t, o, n, style, "u32")) return; break; }
    case 1: { if (!SortCase<uint64_t>(t, o, n, style, "u64")) return; break; }
    case 2: { if (!SortCase<int>(t, o, n, style, "int")) return; break; }
    case 3: { if (!SortCase<int64_t>(t, o, n, style, "i64")) return; break; }
    case 4: {  // comparator + payload: stability
      std::vector<int> k = GenInts<int>(t, n, style);
      std::vector<Rec> a(n), b;
      for (size_t i = 0; i < n; ++i) a[i] = {k[i] % 50, uint32_t(i)};
      b = a;
      auto cmp = [](const Rec& x, const Rec& y) { return x.key < y.key; };
      stable_sort(P, a.begin(), a.end(), cmp);
      std::stable_sort(b.begin(), b.end(), cmp);
      if (!(a == b)) { fail("stable_sort-comparator-stability"); return; }
      break;
    }
    case 5: {  // merge sort path without comparator (non-integral value type)
      std::vector<int> k = GenInts<int>(t, n, style);
      std::vector<double> a(n), b;
      for (size_t i = 0; i < n; ++i) a[i] = double(k[i] % 97) * 0.5;
      b = a;
      stable_sort(P, a.begin(), a.end());
      std::stable_sort(b.begin(), b.end());
      if (!Same(a, b)) { fail("stable_sort-double"); return; }
      break;
    }
    case 6: {
      std::vector<int> a = GenInts<int>(t, n, style), out(n, -1), ref(n, -1);
      for_each(P, countAt(0_uz), countAt(n), [&](size_t i) { out[i] = a[i] * 3 + 1; });
      for (size_t i = 0; i < n; ++i) ref[i] = a[i] * 3 + 1;
      if (!Same(out, ref)) { fail("for_each"); return; }
      std::fill(out.begin(), out.end(), -1);
      for_each_n(P, countAt(0_uz), n, [&](size_t i) { out[i] = a[i] * 3 + 1; });
      if (!Same(out, ref)) { fail("for_each_n"); return; }
      break;
    }
    case 7: {
      std::vector<int> a = GenInts<int>(t, n, style), out(n), ref(n);
      transform(P, a.begin(), a.end(), out.begin(), [](int x) { return x ^ 0x55; });
      std::transform(a.begin(), a.end(), ref.begin(), [](int x) { return x ^ 0x55; });
      if (!Same(out, ref)) { fail("transform"); return; }
      break;
    }
    case 8: {
      std::vector<int> a = GenInts<int>(t, n, style), out(n, -7), out2(n, -7);
      copy(P, a.begin(), a.end(), out.begin());
      copy_n(P, a.begin(), n, out2.begin());
      if (!Same(out, a) || !Same(out2, a)) { fail("copy"); return; }
      break;
    }
    case 9: {
      std::vector<int> out(n, 1), ref(n, 42);
      fill(P, out.begin(), out.end(), 42);
      if (!Same(out, ref)) { fail("fill"); return; }
      sequence(P, out.begin(), out.end());
      std::iota(ref.begin(), ref.end(), 0);
      if (!Same(out, ref)) { fail("sequence"); return; }
      break;
    }
    case 10: {  // reduce with a commutative, associative op (documented requirement)
      std::vector<uint64_t> a = GenInts<uint64_t>(t, n, style);
      uint64_t r = reduce(P, a.begin(), a.end(), uint64_t(5), [](uint64_t x, uint64_t y) { return x + y; });
      uint64_t ref = std::accumulate(a.begin(), a.end(), uint64_t(5));
      if (r != ref) { fail("reduce-sum"); return; }
      uint64_t r2 = reduce(P, a.begin(), a.end(), uint64_t(0), [](uint64_t x, uint64_t y) { return std::max(x, y); });
      uint64_t ref2 = 0;
      for (auto v : a) ref2 = std::max(ref2, v);
      if (r2 != ref2) { fail("reduce-max"); return; }
      break;
    }
    case 11: {
      std::vector<int> a = GenInts<int>(t, n, style);
      int64_t r = transform_reduce(P, a.begin(), a.end(), int64_t(3), [](int64_t x, int64_t y) { return x + y; }, [](int x) { return int64_t(x % 1000) * 2; });
      int64_t ref = 3;
      for (int x : a) ref += int64_t(x % 1000) * 2;
      if (r != ref) { fail("transform_reduce"); return; }
      break;
    }
    case 12: {
      std::vector<uint64_t> a = GenInts<uint64_t>(t, n, style), out(n), ref(n);
      inclusive_scan(P, a.begin(), a.end(), out.begin());
      std::inclusive_scan(a.begin(), a.end(), ref.begin());
      if (!Same(out, ref)) { fail("inclusive_scan"); return; }
      // in place
      std::vector<uint64_t> b = a;
      inclusive_scan(P, b.begin(), b.end(), b.begin());
      if (!Same(b, ref)) { fail("inclusive_scan-inplace"); return; }
      break;
    }
    case 13: {
      std::vector<uint64_t> a = GenInts<uint64_t>(t, n, style), out(n), ref(n);
      uint64_t init = t.range(0, 9);
      exclusive_scan(P, a.begin(), a.end(), out.begin(), init);
      std::exclusive_scan(a.begin(), a.end(), ref.begin(), init);
      if (!Same(out, ref)) { fail("exclusive_scan"); return; }
      std::vector<uint64_t> b = a;
      exclusive_scan(P, b.begin(), b.end(), b.begin(), init);
      if (!Same(b, ref)) { fail("exclusive_scan-inplace"); return; }
      // non-plus operator with its identity: max
      std::vector<uint64_t> o2(n), r2(n);
      exclusive_scan(P, a.begin(), a.end(), o2.begin(), uint64_t(0), [](uint64_t x, uint64_t y) { return std::max(x, y); }, uint64_t(0));
      std::exclusive_scan(a.begin(), a.end(), r2.begin(), uint64_t(0), [](uint64_t x, uint64_t y) { return std::max(x, y); });
      if (!Same(o2, r2)) { fail("exclusive_scan-max"); return; }
      {
        // an associative but NOT commutative operator ("carry the last non-zero value forward", identity 0):
        // the order in which TBB joins partial sums matters
        auto last = [](uint64_t x, uint64_t y) { return y != 0 ? y : x; };
        std::vector<uint64_t> a3 = a, o3(n), r3(n);
        for (size_t i = 0; i < a3.size(); ++i) a3[i] = (a3[i] % 3 == 0) ? 0 : a3[i] % 1000 + 1;
        exclusive_scan(P, a3.begin(), a3.end(), o3.begin(), uint64_t(0), last, uint64_t(0));
        std::exclusive_scan(a3.begin(), a3.end(), r3.begin(), uint64_t(0), last);
        if (!Same(o3, r3)) { fail("exclusive_scan-noncommutative"); return; }
      }
      break;
    }
    case 14: {
      std::vector<int> a = GenInts<int>(t, n, style), out(n, -9), ref(n, -9);
      auto pred = [](int x) { return (x & 3) != 0; };
      auto e1 = copy_if(P, a.begin(), a.end(), out.begin(), pred);
      auto e2 = std::copy_if(a.begin(), a.end(), ref.begin(), pred);
      if ((e1 - out.begin()) != (e2 - ref.begin()) || !Same(out, ref)) { fail("copy_if"); return; }
      break;
    }
    case 15: {
      std::vector<int> a = GenInts<int>(t, n, style), b = a;
      auto pred = [](int x) { return (x % 3) == 0; };
      auto e1 = remove_if(P, a.begin(), a.end(), pred);
      auto e2 = std::remove_if(b.begin(), b.end(), pred);
      a.resize(e1 - a.begin());
      b.resize(e2 - b.begin());
      if (!Same(a, b)) { fail("remove_if"); return; }
      break;
    }
    case 16: {
      std::vector<int> a = GenInts<int>(t, n, style), b = a;
      int val = n ? a[n / 2] : 0;
      auto e1 = remove(P, a.begin(), a.end(), val);
      auto e2 = std::remove(b.begin(), b.end(), val);
      a.resize(e1 - a.begin());
      b.resize(e2 - b.begin());
      if (!Same(a, b)) { fail("remove"); return; }
      break;
    }
    case 17: {
      std::vector<int> a = GenInts<int>(t, n, style);
      if (style != 2 && style != 3) std::sort(a.begin(), a.end());
      std::vector<int> b = a;
      auto e1 = unique(P, a.begin(), a.end());
      auto e2 = std::unique(b.begin(), b.end());
      a.resize(e1 - a.begin());
      b.resize(e2 - b.begin());
      if (!Same(a, b)) { fail("unique"); return; }
      break;
    }
    case 18: {  // unique on unsorted input with runs
      std::vector<int> a = GenInts<int>(t, n, 0), b = a;
      auto e1 = unique(P, a.begin(), a.end());
      auto e2 = std::unique(b.begin(), b.end());
      a.resize(e1 - a.begin());
      b.resize(e2 - b.begin());
      if (!Same(a, b)) { fail("unique-runs"); return; }
      break;
    }
    case 19: {
      std::vector<int> a = GenInts<int>(t, n, style);
      auto pred = [](int x) { return (x & 1) == 0; };
      if (count_if(P, a.begin(), a.end(), pred) != size_t(std::count_if(a.begin(), a.end(), pred))) { fail("count_if"); return; }
      auto allp = [&](int x) { return x != (n ? a[n - 1] : 0) || n == 0; };
      if (all_of(P, a.begin(), a.end(), allp) != std::all_of(a.begin(), a.end(), allp)) { fail("all_of"); return; }
      auto yes = [](int) { return true; };
      if (!all_of(P, a.begin(), a.end(), yes)) { fail("all_of-true"); return; }
      break;
    }
    case 20: {
      std::vector<int> a = GenInts<int>(t, n, style);
      std::vector<size_t> map(n);
      std::iota(map.begin(), map.end(), 0);
      std::vector<int> kk = GenInts<int>(t, n, 1);
      std::stable_sort(map.begin(), map.end(), [&](size_t x, size_t y) { return kk[x] < kk[y]; });  // a permutation
      std::vector<int> g(n, -1), gref(n, -1), sc(n, -1), sref(n, -1);
      gather(P, map.begin(), map.end(), a.begin(), g.begin());
      for (size_t i = 0; i < n; ++i) gref[i] = a[map[i]];
      if (!Same(g, gref)) { fail("gather"); return; }
      scatter(P, a.begin(), a.end(), map.begin(), sc.begin());
      for (size_t i = 0; i < n; ++i) sref[map[i]] = a[i];
      if (!Same(sc, sref)) { fail("scatter"); return; }
      break;
    }
    case 21: { if (!SortCase<size_t>(t, o, n, style, "size_t")) return; break; }
    case 22: {  // comparator sort, descending, on ints (merge path with comparator)
      std::vector<int> a = GenInts<int>(t, n, style), b = a;
      stable_sort(P, a.begin(), a.end(), std::greater<int>());
      std::stable_sort(b.begin(), b.end(), std::greater<int>());
      if (!Same(a, b)) { fail("stable_sort-greater"); return; }
      break;
    }
    case 23: {  // for_each through an ExecutionContext (cancellable overload), not cancelled
      std::vector<int> out(n, 0), ref(n, 7);
      for_each_n(P, countAt(0_uz), n, static_cast<ExecutionContext::Impl*>(nullptr), [&](size_t i) { out[i] = 7; });
      if (!Same(out, ref)) { fail("for_each_n-ctx"); return; }
      break;
    }
    case 24: {  // policy-less overloads choose Par above the threshold on their own
      std::vector<uint32_t> a = GenInts<uint32_t>(t, n, style), b = a;
      manifold::stable_sort(a.data(), a.data() + a.size());
      std::stable_sort(b.begin(), b.end());
      if (!Same(a, b)) { fail("stable_sort-auto"); return; }
      break;
    }
  }
#if defined(VERIF_MOCKTBB)
  auto& s = mocktbb::sched();
  o.counters["mock_regions"] += s.regions;
  o.counters["mock_split_regions"] += s.splitRegions;
  o.counters["mock_out_of_order_regions"] += s.outOfOrderRegions;
  o.counters["mock_multi_worker_regions"] += s.multiWorkerRegions;
  o.counters["mock_body_splits"] += s.bodySplits;
  o.counters["mock_scan_splits"] += s.scanSplits;
  o.nontrivial = s.outOfOrderRegions > 0 || s.bodySplits > 0 || s.scanSplits > 0 || s.tasksReordered > 0;
#else
  o.nontrivial = n >= 2 && workers >= 2;
#endif
  o.cls("alg" + std::to_string(alg));
  o.cls(n == 0 ? "n=0" : n == 1 ? "n=1" : n < 10000 ? "n<1e4" : n <= 10001 ? "n~1e4" : n < 100000 ? "n<1e5" : "n>=1e5");
  o.fingerprint = verif::fnv(t.d, t.n);
}
}  // namespace

int main(int argc, char** argv) {
  verif::Config cfg{"C13", "parallel",
                    "25 algorithm families (stable_sort: radix path for u32/u64/int/i64/size_t pointers, merge path for doubles and iterators, comparator with key+payload records for stability, policy-less overload; for_each(_n), transform, copy(_n), fill, sequence, reduce, transform_reduce, inclusive/exclusive scan out-of-place and in place incl. a non-plus operator, copy_if, remove_if, remove, unique, count_if, all_of, gather, scatter) at lengths {0,1,2,3,...,9999,10000,10001,...,65535,65536,65537,131072(+1), random<=5e4, random<=300, random 1e5..4e5} with 6 content styles, always ExecutionPolicy::Par; oracle = byte equality with the std:: algorithm; mock build: generated arena width 1-16 and schedule tape (splits, chunk order, worker slots, body splits, scan splits, invoke order), non-trivial = some region ran out of order or with a split reduce/scan body; tbb build: generated worker count, non-trivial = >=2 workers",
                    40};
  return verif::run_main(argc, argv, cfg, Body);
}
