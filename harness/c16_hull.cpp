// C16: Hull is the convex hull of its input; Minkowski sum/difference are
// dilation/erosion by a structuring solid that contains the origin.
#include <set>

#include "common/verif.h"
#include "gen/solids.h"
#include "oracle/topo.h"
#include "oracle/wind3.h"

using namespace manifold;
using oracle::Soup;
using oracle::V3;
using verif::Outcome;
using verif::Tape;

namespace {

// exact rank test on integer points: do they span a volume?
bool SpansVolumeInt(const std::vector<std::array<long, 3>>& p) {
  for (size_t a = 0; a < p.size(); ++a)
    for (size_t b = a + 1; b < p.size(); ++b)
      for (size_t c = b + 1; c < p.size(); ++c)
        for (size_t d = c + 1; d < p.size(); ++d) {
          long u[3], v[3], w[3];
          for (int k = 0; k < 3; ++k) { u[k] = p[b][k] - p[a][k]; v[k] = p[c][k] - p[a][k]; w[k] = p[d][k] - p[a][k]; }
          long det = u[0] * (v[1] * w[2] - v[2] * w[1]) - u[1] * (v[0] * w[2] - v[2] * w[0]) + u[2] * (v[0] * w[1] - v[1] * w[0]);
          if (det != 0) return true;
        }
  return false;
}

double MaxTetVolume(const std::vector<vec3>& p, Tape& t) {
  // sampled lower bound of the largest tetrahedron volume (deterministic strides)
  double best = 0;
  size_t n = p.size();
  if (n < 4) return 0;
  for (size_t a = 0; a < n; a += std::max<size_t>(1, n / 12))
    for (size_t b = a + 1; b < n; b += std::max<size_t>(1, n / 12))
      for (size_t c = b + 1; c < n; c += std::max<size_t>(1, n / 12))
        for (size_t d = c + 1; d < n; d += std::max<size_t>(1, n / 12)) {
          vec3 u = p[b] - p[a], v = p[c] - p[a], w = p[d] - p[a];
          best = std::max(best, std::abs(la::dot(u, la::cross(v, w))) / 6);
        }
  return best;
}

void JudgeHull(const Manifold& h, const std::vector<vec3>& pts, bool exactDegenerate, bool knownDegenerate, double scale, Outcome& o) {
  if (h.Status() != Manifold::Error::NoError) { o.fail("hull:status", verif::fmt("Status %d", int(h.Status()))); return; }
  if (exactDegenerate) {
    if (!h.IsEmpty()) o.known("F12-hull-degenerate", "hull:degenerate-not-empty", "points span no volume but Hull is not empty");
    return;
  }
  oracle::TopoReport tr = oracle::CheckManifold(h);
  if (!tr.ok) { o.fail("hull:" + tr.sig, tr.msg); return; }
  if (knownDegenerate) return;  // between the decidable regimes: nothing more promised
  if (h.IsEmpty()) { o.fail("hull:empty", "points span a volume but Hull is empty"); return; }
  Soup s = oracle::MakeSoup(h);
  std::set<std::array<double, 3>> in;
  for (auto& p : pts) in.insert({p.x + 0.0, p.y + 0.0, p.z + 0.0});
  for (auto& v : s.v)
    if (!in.count({v.x + 0.0, v.y + 0.0, v.z + 0.0})) { o.fail("hull:vertex-not-input", verif::fmt("hull vertex (%.17g,%.17g,%.17g) is not an input point", v.x, v.y, v.z)); return; }
  // quickhull discards points within its own epsilon (1e-7 * largest |coordinate|) of a face
  double eps = 2e-7 * scale;
  bool finFace = false, overlap = false;
  std::string finMsg;
  // Convexity in the solid sense: every non-sliver face lies in a supporting
  // plane.  Quickhull keeps collinear/coplanar input points as vertices and may
  // triangulate a flat face with a fold (a coplanar triangle facing inward);
  // that changes nothing about the solid, so a plane is accepted when all
  // points are on one side of it, whichever side.  A plane with points on both
  // sides by more than eps cuts through the hull: not convex.
  for (size_t i = 0; i < s.t.size(); ++i) {
    V3 a = s.A(i), n = oracle::cross(s.B(i) - a, s.C(i) - a);
    double l = oracle::norm(n);
    double e2 = std::max({oracle::dot(s.B(i) - a, s.B(i) - a), oracle::dot(s.C(i) - a, s.C(i) - a), oracle::dot(s.C(i) - s.B(i), s.C(i) - s.B(i))});
    if (!(l > 1e-7 * e2)) continue;
    double mx = 0, mn = 0;
    for (auto& p : pts) { double dd = oracle::dot(V3(p.x, p.y, p.z) - a, n) / l; mx = std::max(mx, dd); mn = std::min(mn, dd); }
    if (mx > eps && mn < -eps) { finFace = true; finMsg = verif::fmt("hull face %zu has input points %.3g outside and %.3g inside its plane", i, mx, -mn); }
  }
  // containment: no input point is outside the hull solid by more than eps
  for (auto& p : pts) {
    V3 q(p.x, p.y, p.z);
    if (oracle::SurfaceDist(s, q) <= eps) continue;
    double w = oracle::Winding(s, q);
    if (std::lround(w) > 1) { overlap = true; continue; }  // inside a region the folded faces enclose twice: still in the solid
    if (std::lround(w) != 1) { o.fail("hull:point-outside", verif::fmt("input point (%.17g,%.17g,%.17g) is outside the hull (winding %.6g, distance %.3g)", p.x, p.y, p.z, w, oracle::SurfaceDist(s, q))); return; }
  }
  // convexity of the solid: midpoints of input-point pairs are inside or on it
  for (size_t i = 0; i < pts.size(); i += std::max<size_t>(1, pts.size() / 12))
    for (size_t j = i + 1; j < pts.size(); j += std::max<size_t>(1, pts.size() / 12)) {
      V3 q((pts[i].x + pts[j].x) / 2, (pts[i].y + pts[j].y) / 2, (pts[i].z + pts[j].z) / 2);
      if (oracle::SurfaceDist(s, q) <= eps) continue;
      double w = oracle::Winding(s, q);
      if (std::lround(w) > 1) { overlap = true; continue; }
      if (std::lround(w) != 1) { o.fail("hull:not-convex", verif::fmt("midpoint of input points %zu and %zu is outside the hull (winding %.6g)", i, j, w)); return; }
    }
  // a face that is not in a supporting plane while the solid is the right convex
  // set is a zero-volume fin reaching into the interior: known finding F14
  if (finFace) { o.known("F14-hull-fin", "hull:not-supporting-plane", finMsg + (overlap ? " (the folded faces enclose some volume twice)" : "")); return; }
  if (overlap) { o.fail("hull:self-overlap", "a point has winding number 2 although every face lies in a supporting plane"); return; }
  if (oracle::Volume(s) <= 0) { o.fail("hull:volume", "non-positive volume"); return; }
}

void ModeHullPts(Tape& t, Outcome& o) {
  auto& d = o.desc;
  int style = t.range(0, 5);
  int n = t.range(0, 60);
  std::vector<vec3> pts;
  std::vector<std::array<long, 3>> ip;
  bool integer = false;
  d << "HullPts(style" << style << ",n=" << n << ")";
  auto addInt = [&](long x, long y, long z) { pts.push_back(vec3(x, y, z)); ip.push_back({x, y, z}); };
  switch (style) {
    case 0: for (int i = 0; i < n; ++i) pts.push_back(vec3(t.real(-1, 1), t.real(-1, 1), t.real(-1, 1))); break;
    case 1: for (int i = 0; i < n; ++i) { vec3 v(t.real(-1, 1), t.real(-1, 1), t.real(-1, 1)); double l = la::length(v); pts.push_back(l > 0 ? v / l : vec3(1, 0, 0)); } break;
    case 2: integer = true; for (int i = 0; i < n; ++i) addInt(t.range(0, 3), t.range(0, 3), t.range(0, 3)); break;
    case 3: {  // exactly collinear / coplanar integer sets with duplicates
      integer = true;
      bool coplanar = t.flip();
      for (int i = 0; i < n; ++i) { long a = t.range(-3, 3), b = coplanar ? t.range(-3, 3) : 0; addInt(a + 2 * b, 2 * a - b, a + b); }
      break;
    }
    case 4: {  // tight clusters around a few centres (+ exact duplicates)
      int k = t.range(1, 5);
      std::vector<vec3> c;
      for (int i = 0; i < k; ++i) c.push_back(vec3(t.real(-1, 1), t.real(-1, 1), t.real(-1, 1)));
      for (int i = 0; i < n; ++i) { vec3 q = c[t.range(0, k - 1)]; if (t.flip()) q += vec3(t.real(-1, 1), t.real(-1, 1), t.real(-1, 1)) * 1e-9; pts.push_back(q); }
      break;
    }
    case 5: {  // cube corners + interior + face/edge points (many coplanar)
      integer = true;
      for (int i = 0; i < n; ++i) addInt(2 * t.range(0, 2), 2 * t.range(0, 2), 2 * t.range(0, 2));
      break;
    }
  }
  for (int i = 0; i < int(pts.size()) && i < 8; ++i) d << " (" << gen::num(pts[i].x) << "," << gen::num(pts[i].y) << "," << gen::num(pts[i].z) << ")";
  double scale = 1e-300;
  for (auto& p : pts) scale = std::max({scale, std::abs(p.x), std::abs(p.y), std::abs(p.z)});
  bool exactDeg = integer ? !SpansVolumeInt(ip) : pts.size() < 4;
  double big = MaxTetVolume(pts, t);
  bool surelyFull = big > 1e-6 * scale * scale * scale;
  bool between = !exactDeg && !surelyFull;
  if (integer && !exactDeg) between = false;
  int api = t.range(0, 2);
  Manifold h = Manifold::Hull(pts);
  JudgeHull(h, pts, exactDeg, between, scale, o);
  if (!o.ok || o.knownFail) return;
  if (api >= 1 && !exactDeg && !between && !h.IsEmpty()) {
    // Manifold::Hull() of a hull and Hull({parts}) must give the same hull
    Manifold h2 = api == 1 ? h.Hull() : Manifold::Hull(std::vector<Manifold>{h, h.Translate(vec3(0.0))});
    JudgeHull(h2, pts, false, false, scale, o);
    if (!o.ok) return;
    if (std::abs(oracle::Volume(oracle::MakeSoup(h2)) - oracle::Volume(oracle::MakeSoup(h))) > 1e-9 * scale * scale * scale) { o.fail("hull:rehull-volume", "Hull of a hull changed volume"); return; }
  }
  o.cls(exactDeg ? "degenerate-exact" : between ? "unclassified-thin" : "full");
  o.cls("style" + std::to_string(style));
  o.counters[between ? "hull_unclassified" : "hull_classified"]++;
  o.nontrivial = !exactDeg && !between && pts.size() >= 8;
}

void ModeHullManifolds(Tape& t, Outcome& o) {
  auto& d = o.desc;
  int k = t.range(1, 3);
  std::vector<Manifold> ms;
  std::vector<vec3> pts;
  for (int i = 0; i < k; ++i) {
    d << (i ? " , " : "Hull{");
    Manifold m = gen::GenPose(t, gen::GenPrimitive(t, d), i, d, 1.0);
    ms.push_back(m);
    MeshGL64 g = m.GetMeshGL64();
    for (size_t v = 0; v < g.vertProperties.size(); v += g.numProp) pts.push_back(vec3(g.vertProperties[v], g.vertProperties[v + 1], g.vertProperties[v + 2]));
  }
  d << "}";
  double scale = 0;
  for (auto& p : pts) scale = std::max({scale, std::abs(p.x), std::abs(p.y), std::abs(p.z)});
  Manifold h = k == 1 && t.flip() ? ms[0].Hull() : Manifold::Hull(ms);
  JudgeHull(h, pts, false, false, scale, o);
  if (!o.ok) return;
  // contains each operand: guarded interior points of operands are inside the hull
  Soup sh = oracle::MakeSoup(h);
  for (auto& m : ms) {
    Soup s = oracle::MakeSoup(m);
    for (int i = 0; i < 10; ++i) {
      V3 p(s.lo.x + (s.hi.x - s.lo.x) * t.unit(), s.lo.y + (s.hi.y - s.lo.y) * t.unit(), s.lo.z + (s.hi.z - s.lo.z) * t.unit());
      if (oracle::Classify(s, p, 1e-6 * scale) == 1 && oracle::Classify(sh, p, 1e-7 * scale) == 0) { o.fail("hull:operand-not-contained", "a point inside an operand is outside the hull"); return; }
    }
  }
  o.nontrivial = true;
  o.cls("hull-of-manifolds");
}

// small solids: 0 cube 1 tet 2 L-prism (non-convex) 3 octahedron-ish sphere 4 wedge
Manifold SmallSolid(Tape& t, std::ostream& d, bool& convex, bool centred) {
  int k = t.range(0, 4);
  Manifold m;
  convex = true;
  switch (k) {
    case 0: { vec3 s(t.real(0.3, 1), t.real(0.3, 1), t.real(0.3, 1)); m = Manifold::Cube(s, true); d << "Cube(" << gen::num(s.x) << "," << gen::num(s.y) << "," << gen::num(s.z) << ")"; break; }
    case 1: { double s = t.real(0.3, 0.8); m = Manifold::Tetrahedron().Scale(vec3(s)); d << "Tet(" << gen::num(s) << ")"; break; }
    case 2: { m = Manifold::Extrude({{{-0.5, -0.5}, {0.5, -0.5}, {0.5, -0.1}, {-0.1, -0.1}, {-0.1, 0.5}, {-0.5, 0.5}}}, t.real(0.3, 0.8)).Translate(vec3(0, 0, -0.2)); convex = false; d << "LPrism"; break; }
    case 3: { double r = t.real(0.3, 0.7); m = Manifold::Sphere(r, 4 * t.range(1, 2)); d << "Sphere(" << gen::num(r) << ")"; break; }
    case 4: { m = Manifold::Cylinder(t.real(0.3, 0.8), t.real(0.3, 0.6), t.real(0.1, 0.6), t.range(3, 6), true); d << "Frustum"; break; }
  }
  vec3 rot(t.real(0, 360), t.real(0, 360), t.real(0, 360));
  m = m.Rotate(rot.x, rot.y, rot.z);
  d << ".Rotate(" << gen::num(rot.x) << "," << gen::num(rot.y) << "," << gen::num(rot.z) << ")";
  if (!centred) { vec3 tr(t.real(-1, 1), t.real(-1, 1), t.real(-1, 1)); m = m.Translate(tr); d << ".Translate"; }
  else if (!convex) { /* L-prism: origin (0,0,~0.1) is inside the thick corner region: x,y in [-0.5,-0.1] ... shift so it is */ m = Manifold::Extrude({{{-0.2, -0.2}, {0.8, -0.2}, {0.8, 0.2}, {0.2, 0.2}, {0.2, 0.8}, {-0.2, 0.8}}}, 0.6).Translate(vec3(0, 0, -0.3)); d << "(L centred on origin)"; }
  return m;
}

void ModeMinkowski(Tape& t, Outcome& o) {
  auto& d = o.desc;
  bool ca, cb;
  d << "A=";
  bool aCentred = t.chance(96);
  Manifold A = SmallSolid(t, d, ca, aCentred);
  // the convex-B path evaluates A's triangles in batches of 1000: now and then
  // use an A above that size (a finer sphere, 1352 triangles) with a tiny B
  bool bigA = t.chance(5);
  if (bigA) { A = Manifold::Sphere(0.8, 52).Translate(vec3(0.3, -0.2, 0.1)); ca = true; aCentred = true; d << " [A:=Sphere(0.8,52) 1352 tris]"; }
  d << " B=";
  Manifold B = SmallSolid(t, d, cb, true);  // contains the origin
  if (bigA) { B = Manifold::Tetrahedron().Scale(vec3(0.15)).Rotate(10, 20, 30); cb = true; d << " [B:=small tetrahedron]"; }
  bool diff = t.chance(96);
  // the statement is about MinkowskiSum(A, B) with the *argument* B containing
  // the origin; the operands are swapped only when A contains it as well
  bool swapped = !diff && aCentred && t.flip();
  Soup sa = oracle::MakeSoup(A), sb = oracle::MakeSoup(B);
  double scale = std::max(sa.scale(), sb.scale()) + 1;
  // B must really contain the origin (by a margin): precondition by construction, verified
  if (oracle::Classify(sb, V3(0, 0, 0), 1e-3) != 1) { o.exclude("structuring solid does not contain the origin by margin"); return; }
  if (swapped && oracle::Classify(sa, V3(0, 0, 0), 1e-3) != 1) swapped = false;
  d << (diff ? " MinkowskiDifference(A,B)" : swapped ? " MinkowskiSum(B,A)" : " MinkowskiSum(A,B)");
  Manifold R = diff ? A.MinkowskiDifference(B) : swapped ? B.MinkowskiSum(A) : A.MinkowskiSum(B);
  if (R.Status() != Manifold::Error::NoError) { o.fail("minkowski:status", verif::fmt("Status %d", int(R.Status()))); return; }
  oracle::TopoReport tr = oracle::CheckManifold(R);
  if (!tr.ok) { o.fail("minkowski:" + tr.sig, tr.msg); return; }
  Soup sr = oracle::MakeSoup(R);
  double margin = 1e-4 * scale, g = 1e-6 * scale;
  double reach = 0;
  for (auto& v : sb.v) reach = std::max(reach, oracle::norm(v));
  auto sample = [&](const Soup& s) { return V3(s.lo.x + (s.hi.x - s.lo.x) * t.unit(), s.lo.y + (s.hi.y - s.lo.y) * t.unit(), s.lo.z + (s.hi.z - s.lo.z) * t.unit()); };
  long used = 0;
  if (!diff) {
    for (int i = 0; i < 60; ++i) {
      V3 a = sample(sa), b = i % 4 == 0 ? V3(0, 0, 0) : sample(sb);
      if (oracle::Classify(sa, a, margin) != 1 || oracle::Classify(sb, b, margin) != 1) continue;
      V3 p = a + b;
      if (oracle::SurfaceDist(sr, p) <= g) continue;
      ++used;
      double w = oracle::Winding(sr, p);
      if (std::lround(w) != 1 || std::abs(w - 1) > 1e-6) { o.fail("minkowski:sum-missing", verif::fmt("a+b = (%.9g,%.9g,%.9g) with a in A, b in B has winding %.9g in the sum (surface distance %.3g)", p.x, p.y, p.z, w, oracle::SurfaceDist(sr, p))); return; }
    }
    for (int i = 0; i < 40; ++i) {
      V3 p = sample(sr);
      if (oracle::Classify(sr, p, margin) != 1) continue;
      double dist = oracle::Classify(sa, p, 0) == 1 ? 0.0 : oracle::SurfaceDist(sa, p);
      ++used;
      if (dist > reach + g) { o.fail("minkowski:sum-too-far", verif::fmt("point of the sum is %.9g from A but B reaches only %.9g", dist, reach)); return; }
    }
  } else {
    for (int i = 0; i < 80; ++i) {
      V3 p = i < 40 ? sample(sa) : sample(sr);
      if (sr.t.empty() || oracle::Classify(sr, p, margin) != 1) continue;
      ++used;
      if (oracle::Classify(sa, p, g) == 0) { o.fail("minkowski:difference-outside-A", verif::fmt("point (%.9g,%.9g,%.9g) of the difference is outside A", p.x, p.y, p.z)); return; }
      for (int j = 0; j < 8; ++j) {
        V3 b = sample(sb);
        if (oracle::Classify(sb, b, margin) != 1) continue;
        V3 q = p - b;
        int c = oracle::Classify(sa, q, g);
        if (c == 0) { o.fail("minkowski:difference-not-eroded", verif::fmt("p in D but p-b = (%.9g,%.9g,%.9g) is outside A", q.x, q.y, q.z)); return; }
      }
    }
    // erosion is not vacuous: if a ball around some point of A with radius > reach fits, D is non-empty
    for (int i = 0; i < 20; ++i) {
      V3 p = sample(sa);
      if (oracle::Classify(sa, p, reach + margin) == 1 && oracle::Classify(sr, p, g) == 0) { o.fail("minkowski:difference-too-small", "a point farther than B's reach inside A is missing from the difference"); return; }
    }
  }
  o.counters["points_used"] += used;
  o.nontrivial = (!ca || !cb || bigA) && used > 0;
  if (bigA) o.cls("A>1000-triangles");
  o.cls(std::string(diff ? "difference" : "sum") + (ca ? "-Aconvex" : "-Anonconvex") + (cb ? "-Bconvex" : "-Bnonconvex"));
}

void Body(Tape& t, Outcome& o) {
  int mode = t.range(0, 9);
  if (mode <= 5) ModeHullPts(t, o);
  else if (mode <= 7) ModeHullManifolds(t, o);
  else ModeMinkowski(t, o);
  o.fingerprint = verif::fnv_str(o.desc.str()) ^ verif::fnv(t.d, std::min<size_t>(t.n, 64));
}
}  // namespace

int main(int argc, char** argv) {
  verif::Config cfg{"C16", "hull",
                    "point sets of 0-60 points (uniform, on a sphere, integer lattice, exactly collinear/coplanar integer sets, 1e-9 clusters with duplicates, cube corner/face/interior points) through Hull(points)/Hull()/Hull(vector); hulls of 1-3 posed primitives; Minkowski sum (both operand orders) and difference of small solids (cube, tet, non-convex L-prism, coarse sphere, frustum) with a structuring solid verified to contain the origin; oracle: exact integer rank for degeneracy, every hull vertex bit-equal to an input, every input on the inner side of every face within 2e-7*scale (quickhull's own epsilon is 1e-7*scale), closed-manifold predicate; sum contains a+b and stays within B's reach of A; difference inside A with p-b inside A; non-trivial = >=8 points spanning a volume / hull of manifolds / Minkowski with a non-convex operand; distinct = case hash",
                    12};
  return verif::run_main(argc, argv, cfg, Body);
}
