// C05 (sub-check): values stay values when an evaluation of something derived
// from them is cancelled.  A generated pool of operands - evaluated leaves and
// *lazy* expressions - feeds a derived expression that is evaluated under an
// ExecutionContext; Cancel() is injected at the k-th cancellation check (probe
// hook in IsCancelled, as in C15) for a generated k.  Afterwards every operand
// must be exactly what an identically built twin that never met a context is:
// same Status and the same solid (emptiness, genus, volume, area, bounding box).
#include "common/verif.h"
#include "execution_impl.h"
#include "gen/solids.h"
#include "oracle/canon.h"

using namespace manifold;
using verif::Outcome;
using verif::Tape;

namespace {

struct World {
  std::vector<Manifold> v;
  std::vector<bool> lazy;
};

// deterministic in the tape: builds the operand pool (twice: the world and its twin)
void Build(Tape t, World& w, std::ostream& d) {
  int n = t.range(2, 4);
  for (int i = 0; i < n; ++i) {
    std::ostringstream sink;
    Manifold m = gen::GenPose(t, gen::GenPrimitive(t, sink, 4), i + 1, sink, 0.5);
    bool lz = false;
    if (i > 0 && !t.chance(80)) {
      int a = t.range(0, i - 1);
      int op = t.range(0, 2);
      m = w.v[a].Boolean(m, OpType(op));  // lazy expression sharing operand a's node
      lz = true;
      d << "v" << i << "=v" << a << " op" << op << " prim (lazy) ; ";
    } else {
      if (t.flip()) { (void)m.NumTri(); d << "v" << i << "=prim (evaluated) ; "; }
      else d << "v" << i << "=prim (pending transform) ; ";
    }
    w.v.push_back(m);
    w.lazy.push_back(lz);
  }
}

Manifold Derived(Tape t, const World& w, std::ostream& d) {
  int n = int(w.v.size());
  int kind = t.range(0, 2);
  int a = t.range(0, n - 1), b = t.range(0, n - 1), c = t.range(0, n - 1);
  vec3 off(t.real(-0.3, 0.3) + 0.011, t.real(-0.3, 0.3) + 0.007, t.real(-0.3, 0.3) + 0.003);
  d << "D=";
  if (kind == 0) { d << "(v" << a << " - v" << b << ".T) + v" << c; return (w.v[a] - w.v[b].Translate(off)) + w.v[c]; }
  if (kind == 1) { d << "Batch{v" << a << ",v" << b << ".T,v" << c << ".R}"; return Manifold::BatchBoolean({w.v[a], w.v[b].Translate(off), w.v[c].Rotate(10, 20, 30)}, OpType(t.range(0, 2))); }
  d << "(v" << a << " ^ v" << b << ".T) - v" << c << ".T";
  return (w.v[a] ^ w.v[b].Translate(off)) - w.v[c].Translate(-off);
}

void Body(Tape& t, Outcome& o) {
  auto& d = o.desc;
  int win = t.range(30, 90);
  std::vector<uint8_t> wb(win);
  for (auto& x : wb) x = uint8_t(t.byte());
  int dwin = 24;
  std::vector<uint8_t> db(dwin);
  for (auto& x : db) x = uint8_t(t.byte());
  std::ostringstream sink;

  // how many cancellation checks does the evaluation make?
  long K = 0;
  {
    World w0; Build(Tape(wb.data(), wb.size()), w0, sink);
    ExecutionContext ctx;
    Manifold dm = Derived(Tape(db.data(), db.size()), w0, sink).WithContext(ctx);
    gVerifCancelProbe.checks = 0; gVerifCancelProbe.cancelAt = -1; gVerifCancelProbe.target = ctx.impl_.get();
    (void)dm.Status();
    K = gVerifCancelProbe.checks; gVerifCancelProbe.target = nullptr;
  }
  World w; Build(Tape(wb.data(), wb.size()), w, d);
  World twin; Build(Tape(wb.data(), wb.size()), twin, sink);
  ExecutionContext ctx;
  Manifold dm = Derived(Tape(db.data(), db.size()), w, d).WithContext(ctx);
  long k = K > 0 ? long(t.range(0, int(std::min<long>(K, 60000)) - 1)) : 0;
  d << " ; K=" << K << " cancel at check " << k;
  gVerifCancelProbe.checks = 0; gVerifCancelProbe.cancelAt = k; gVerifCancelProbe.target = ctx.impl_.get();
  Manifold::Error st = dm.Status();
  gVerifCancelProbe.target = nullptr; gVerifCancelProbe.cancelAt = -1;
  bool cancelled = st == Manifold::Error::Cancelled;
  bool anyLazy = false;
  for (size_t i = 0; i < w.v.size() && o.ok; ++i) {
    anyLazy = anyLazy || w.lazy[i];
    if (w.v[i].Status() != twin.v[i].Status()) { o.fail("values:operand-status-changed", verif::fmt("operand v%zu (%s) has Status %d after the cancelled evaluation of a derived expression; an identical twin that never met the context has %d", i, w.lazy[i] ? "lazy" : "leaf", int(w.v[i].Status()), int(twin.v[i].Status()))); break; }
    // The twin evaluates its operands in another order than the cancelled evaluation did, and
    // low-order bits / the tolerance field of a lazily evaluated expression legitimately depend on
    // that order (a shared leaf's pending transform realised before or after it was copied), so
    // the operands are compared as solids rather than byte for byte.
    const Manifold &a = w.v[i], &b = twin.v[i];
    double va = a.Volume(), vb = b.Volume(), sa = a.SurfaceArea(), sb = b.SurfaceArea();
    bool same = a.IsEmpty() == b.IsEmpty() && a.Genus() == b.Genus() && std::abs(va - vb) <= 1e-9 * (1 + std::abs(vb)) && std::abs(sa - sb) <= 1e-9 * (1 + std::abs(sb));
    Box ba = a.BoundingBox(), bb = b.BoundingBox();
    if (!a.IsEmpty() && same) for (int c = 0; c < 3; ++c) if (std::abs(ba.min[c] - bb.min[c]) > 1e-9 || std::abs(ba.max[c] - bb.max[c]) > 1e-9) same = false;
    if (!same) { o.fail("values:operand-solid-changed", verif::fmt("operand v%zu (%s) is a different solid after the cancelled evaluation of a derived expression: volume %.12g vs %.12g, area %.12g vs %.12g, empty %d vs %d", i, w.lazy[i] ? "lazy" : "leaf", va, vb, sa, sb, int(a.IsEmpty()), int(b.IsEmpty()))); break; }
  }
  o.cls(cancelled ? "cancelled" : "completed");
  if (anyLazy) o.cls("lazy-operand");
  o.counters["checks"] += K;
  o.nontrivial = cancelled && anyLazy;
  o.fingerprint = verif::fnv(t.d, t.n);
}
}  // namespace

int main(int argc, char** argv) {
  verif::Config cfg{"C05", "cancel-values",
                    "2-4 operands (primitives under pending transforms, evaluated leaves, lazy Booleans sharing earlier operands), a derived expression over them (nested difference/union, batch, intersection with transforms) evaluated under an ExecutionContext with Cancel() injected at a generated one of its K cancellation checks; every operand compared (Status, emptiness, genus, volume, area, bounding box) with an identically built twin that never met a context; non-trivial = the evaluation was cancelled and at least one operand was a lazy expression; distinct = tape",
                    10};
  return verif::run_main(argc, argv, cfg, Body);
}
