// C04: results are bit-identical across schedules, thread counts and backends.
// One generated program is executed (a) twice in this process, (b) under
// several generated schedules / worker counts (mock TBB: schedule tapes; real
// TBB: global_control worker counts), and (c) by the serial-backend build
// (variant `seq`, spawned as a subprocess with the same tape); every exported
// field of every value must have the same byte fingerprint (mesh IDs
// relabelled by first appearance, since the ID counter is global).
#include <unistd.h>

#include <fstream>

#include "common/verif.h"
#include "gen/program.h"
#include "manifold/cross_section.h"
#include "manifold/polygon.h"
#include "oracle/canon.h"
#if defined(VERIF_MOCKTBB)
#include "tbb/mock_all.h"
#elif MANIFOLD_PAR == 1
#include <tbb/global_control.h>
#endif

using namespace manifold;
using verif::Outcome;
using verif::Tape;

namespace {

// The same observables as oracle::Fingerprint, but with every triangle rotated so that its smallest
// vertex index comes first (and without the corner-ordered tangents): equal under this fingerprint and
// different under the exact one means "the same mesh up to the starting corner of some triangles".
uint64_t FingerprintRot(const Manifold& m) {
  uint64_t h = 1469598103934665603ull;
  h = oracle::HI(uint64_t(m.Status()), h);
  h = oracle::HD(m.GetTolerance(), h);
  h = oracle::HI(m.NumVert(), h); h = oracle::HI(m.NumEdge(), h); h = oracle::HI(m.NumTri(), h); h = oracle::HI(m.NumProp(), h);
  MeshGL64 g = m.GetMeshGL64();
  auto rot = [](auto& tv) { for (size_t i = 0; i + 2 < tv.size(); i += 3) { int k = tv[i] <= tv[i + 1] ? (tv[i] <= tv[i + 2] ? 0 : 2) : (tv[i + 1] <= tv[i + 2] ? 1 : 2); auto a = tv[i + k], b = tv[i + (k + 1) % 3], c = tv[i + (k + 2) % 3]; tv[i] = a; tv[i + 1] = b; tv[i + 2] = c; } };
  rot(g.triVerts);
  h = oracle::HI(g.numProp, h);
  h = oracle::HV(g.vertProperties, h); h = oracle::HV(g.triVerts, h); h = oracle::HV(g.mergeFromVert, h); h = oracle::HV(g.mergeToVert, h);
  h = oracle::HV(g.runIndex, h); h = oracle::HV(g.runTransform, h); h = oracle::HV(g.runFlags, h); h = oracle::HV(g.faceID, h);
  std::map<uint32_t, uint32_t> relabel;
  std::vector<uint32_t> ids;
  for (auto id : g.runOriginalID) ids.push_back(relabel.emplace(id, uint32_t(relabel.size())).first->second);
  h = oracle::HV(ids, h);
  MeshGL f = m.GetMeshGL();
  rot(f.triVerts);
  h = oracle::HV(f.vertProperties, h); h = oracle::HV(f.triVerts, h);
  return h;
}
std::vector<uint64_t> gRotFp;  // filled by RunProgram next to the exact fingerprints (3D values only)

// executes the program encoded by the tape; returns fingerprints of every value
std::vector<uint64_t> RunProgram(Tape t, std::ostream& d, std::string& sizeClass) {
  std::vector<uint64_t> fp;
  int mode = t.range(0, 9);
  if (mode <= 6) {
    gen::Pool pool;
    gen::ProgOptions opt;
    opt.degenerate = false;
    opt.allowLevelSet = true;
    opt.allowMinkowski = false;
    int cls = t.range(0, 9);  // size class of the first operand
    int seg = cls <= 4 ? 0 : cls <= 6 ? 96 : cls <= 8 ? 256 : 512;
    sizeClass = seg == 0 ? "small" : seg == 96 ? "mid(4608 tris)" : seg == 256 ? "mid(32768 tris)" : "large(131072 tris)";
    if (const char* cap = getenv("VERIF_C04_MAXSEG")) seg = std::min(seg, atoi(cap));
    opt.maxTris = seg ? 600000 : 4000;
    if (seg) {
      double r = t.real(0.8, 1.2);
      d << "v0=Sphere(" << gen::num(r) << "," << seg << ")";
      pool.push(Manifold::Sphere(r, seg), double(seg) * seg / 2);
      // one Boolean against a second big operand so that the parallel Boolean paths run
      double r2 = t.real(0.5, 0.9);
      vec3 off(t.real(0.2, 0.6), t.real(-0.3, 0.3), t.real(-0.3, 0.3));
      int op = t.range(0, 2);
      d << " ; v1=Sphere(" << gen::num(r2) << "," << seg / 2 << ").Translate ; v2=Boolean" << op << "(v0,v1)";
      pool.push(Manifold::Sphere(r2, seg / 2).Translate(off), double(seg) * seg / 8);
      pool.push(pool.v[0].m.Boolean(pool.v[1].m, OpType(op)), double(seg) * seg);
      int extra = t.range(0, 2);
      for (int i = 0; i < extra; ++i) {
        int k = t.range(0, 4);
        const Manifold& src = pool.v[2].m;
        if (k == 0) { pool.push(src.Refine(2), 0); d << " ; Refine(v2,2)"; }
        else if (k == 1) { pool.push(src.Simplify(0.01), 0); d << " ; Simplify(v2)"; }
        else if (k == 2) { pool.push(src.CalculateNormals(0, 40), 0); d << " ; CalculateNormals(v2)"; }
        else if (k == 3) { pool.push(src.Hull(), 0); d << " ; Hull(v2)"; }
        else { pool.push(src.SetTolerance(0.02), 0); d << " ; SetTolerance(v2)"; }
      }
    } else {
      int steps = t.range(2, 10);
      for (int s = 0; s < steps; ++s) gen::Step(t, pool, d, opt);
    }
    gRotFp.clear();
    for (auto& v : pool.v) { fp.push_back(oracle::Fingerprint(v.m, true)); gRotFp.push_back(FingerprintRot(v.m)); }
  } else if (mode <= 8) {
    // CrossSection programs, incl. > 1024 edges (BVH broad phase)
    bool big = t.chance(96);
    int n = big ? t.range(280, 340) : t.range(2, 30);
    sizeClass = big ? "2D >1024 edges" : "2D small";
    std::vector<CrossSection> cs;
    d << "2D batch of " << n << " shapes";
    for (int i = 0; i < n; ++i) {
      int x = t.range(0, 30), y = t.range(0, 30);
      if (t.flip()) cs.push_back(CrossSection::Square(vec2(t.range(1, 3), t.range(1, 3))).Translate(vec2(x, y)));
      else cs.push_back(CrossSection::Circle(t.real(0.5, 1.5), 8).Translate(vec2(x + 0.37, y + 0.21)));
    }
    CrossSection u = CrossSection::BatchBoolean(cs, OpType::Add);
    CrossSection w = u.Offset(0.1, JoinType::Round, 2, 8) - cs[0];
    for (auto* c : {&u, &w}) {
      uint64_t h = 1469598103934665603ull;
      for (auto& p : c->ToPolygons()) { h = oracle::HI(p.size(), h); for (auto& v : p) { h = oracle::HD(v.x, h); h = oracle::HD(v.y, h); } }
      h = oracle::HD(c->Area(), h);
      h = oracle::HD(c->GetTolerance(), h);
      fp.push_back(h);
    }
  } else if (t.flip()) {
    // import of a mesh with real pinched vertices (pairs of tetrahedra sharing their apex index) and more than
    // 1e4 halfedges: SplitPinchedVerts and the halfedge pairing run their parallel paths
    int pairs = t.range(600, 2400);
    sizeClass = "pinched import";
    d << "import(" << pairs << " apex-sharing tetrahedron pairs)";
    MeshGL64 g;
    g.numProp = 3;
    auto V = [&](double x, double y, double z) { g.vertProperties.push_back(x); g.vertProperties.push_back(y); g.vertProperties.push_back(z); return uint64_t(g.vertProperties.size() / 3 - 1); };
    auto T = [&](uint64_t a, uint64_t b, uint64_t c) { g.triVerts.push_back(a); g.triVerts.push_back(c); g.triVerts.push_back(b); };  // outward-facing
    for (int i = 0; i < pairs; ++i) {
      double x = 3.0 * (i % 50), y = 3.0 * (i / 50), s = 0.5 + 0.4 * t.unit();
      uint64_t ap = V(x, y, 0);
      uint64_t a0 = V(x + s, y, 1), a1 = V(x - s, y + s, 1), a2 = V(x - s, y - s, 1);
      uint64_t b0 = V(x + s, y, -1), b1 = V(x - s, y - s, -1), b2 = V(x - s, y + s, -1);
      T(ap, a0, a1); T(ap, a1, a2); T(ap, a2, a0); T(a0, a2, a1);
      T(ap, b0, b1); T(ap, b1, b2); T(ap, b2, b0); T(b0, b2, b1);
    }
    Manifold m(g);
    fp.push_back(oracle::Fingerprint(m, true));
    fp.push_back(uint64_t(m.Status()));
  } else {
    // Triangulate of a generated polygon set
    int n = t.range(3, 400);
    sizeClass = "triangulate";
    Polygons ps(1);
    for (int i = 0; i < n; ++i) { double r = t.real(0.5, 1.0), a = 2 * M_PI * (i + 0.2 + 0.6 * t.unit()) / n; ps[0].push_back(vec2(r * std::cos(a), r * std::sin(a))); }
    d << "Triangulate(star" << n << ")";
    auto tris = Triangulate(ps);
    fp.push_back(verif::fnv_vec(tris));
  }
  return fp;
}

std::string Hex(const std::vector<uint64_t>& v) {
  std::string s;
  for (auto x : v) s += verif::fmt("%016llx.", (unsigned long long)x);
  return s;
}

void Body(Tape& t, Outcome& o) {
  auto& d = o.desc;
  // the first part of the tape is the schedule material, the rest the program
  int schedLen = t.range(0, 200);
  std::vector<uint8_t> sched(schedLen);
  for (auto& b : sched) b = uint8_t(t.byte());
  int workers = t.range(1, 16);
  Tape prog(t.d + t.pos, t.pos < t.n ? t.n - t.pos : 0);
  std::string cls;
  std::ostringstream sink;
#if defined(VERIF_MOCKTBB)
  mocktbb::sched().reset(nullptr, 0, 1);  // serial order, one worker
#endif
  std::vector<uint64_t> base = RunProgram(prog, d, cls);
  d << " [" << cls << "]";
  // (a) again in the same process
  {
    std::string c2;
#if defined(VERIF_MOCKTBB)
    mocktbb::sched().reset(nullptr, 0, 1);
#endif
    auto again = RunProgram(prog, sink, c2);
    if (again != base) { o.fail("determinism:rerun", "the same program gave different bytes when run twice in one process"); return; }
  }
  long nonSerialRegions = 0;
  // (b) other schedules / worker counts
#if defined(VERIF_MOCKTBB)
  for (int variant = 0; variant < 6; ++variant) {
    std::vector<uint8_t> sb = sched;
    for (auto& b : sb) b = uint8_t(b * (2 * variant + 1) + 17 * variant);  // derived schedules from the generated one
    int w = variant == 0 ? workers : 1 + (workers + 5 * variant) % 16;
    mocktbb::sched().reset(sb.data(), sb.size(), w);
    std::string c2;
    auto r = RunProgram(prog, sink, c2);
    auto& s = mocktbb::sched();
    nonSerialRegions += s.outOfOrderRegions + s.bodySplits + s.scanSplits + s.multiWorkerRegions + s.tasksReordered;
    if (r != base) { o.fail("determinism:schedule", verif::fmt("schedule variant %d (arena %d) changed the result (regions %ld, out-of-order %ld, body splits %ld, scan splits %ld)", variant, w, s.regions, s.outOfOrderRegions, s.bodySplits, s.scanSplits)); return; }
  }
  d << " ; mock schedules x6";
#elif MANIFOLD_PAR == 1
  static const int counts[] = {1, 2, 3, 5, 8, 16};
  for (int c : counts) {
    tbb::global_control gc(tbb::global_control::max_allowed_parallelism, c);
    std::string c2;
    auto r = RunProgram(prog, sink, c2);
    if (r != base) { o.fail("determinism:threads", verif::fmt("running with %d worker thread(s) changed the result", c)); return; }
  }
  nonSerialRegions = 1;
  d << " ; tbb workers 1,2,3,5,8,16";
#endif
  // (c) the serial backend, in a separate process with its own address space layout
  if (const char* seqBin = getenv("VERIF_C04_SEQ")) {
    char path[64];
    snprintf(path, sizeof path, "/dev/shm/c04-%d.tape", int(getpid()));
    { std::ofstream f(path, std::ios::binary); f.write((const char*)prog.d, prog.n); }
    std::string cmd = std::string(seqBin) + " --emit " + path;
    FILE* p = popen(cmd.c_str(), "r");
    std::string out;
    if (p) { char buf[4096]; size_t k; while ((k = fread(buf, 1, sizeof buf, p)) > 0) out.append(buf, k); pclose(p); }
    unlink(path);
    const std::string wantFP = "FP " + Hex(base) + "\n";
    const std::string outFP = out.substr(0, out.find('\n') == std::string::npos ? out.size() : out.find('\n') + 1);
    std::string want = out;  // equal unless the exact fingerprints differ
    if (outFP != wantFP) {
      gRotFp.clear();
      { std::string c3; std::ostringstream s3; (void)RunProgram(prog, s3, c3); }  // rotation-normalised fingerprints of this backend
      want = wantFP + "FN " + Hex(gRotFp) + "\n";
      if (!gRotFp.empty() && out.size() > outFP.size() && out.substr(outFP.size()) == want.substr(wantFP.size())) {
        // known finding F47: the backends export the same mesh but start some triangle at another corner
        o.known("F47-backend-triangle-rotation", "determinism:backend-triangle-rotation", "the serial-backend build exports the same triangles with a different starting corner");
        return;
      }
    }
    if (out != want && getenv("VERIF_DEBUG")) fprintf(stderr, "THIS %sSEQ  %s", want.c_str(), out.c_str());
    if (out != want) { o.fail("determinism:backend", "the serial-backend build (MANIFOLD_PAR=-1, separate process) produced different bytes"); return; }
    d << " ; vs seq backend";
  }
  o.counters["non_serial_events"] += nonSerialRegions;
  o.nontrivial = nonSerialRegions > 0;
  o.cls(cls);
  o.fingerprint = verif::fnv(prog.d, prog.n);
}
}  // namespace

int main(int argc, char** argv) {
  if (argc == 3 && std::string(argv[1]) == "--emit") {
    std::ifstream f(argv[2], std::ios::binary);
    std::vector<uint8_t> tape((std::istreambuf_iterator<char>(f)), std::istreambuf_iterator<char>());
    Tape t(tape.data(), tape.size());
    std::ostringstream sink;
    std::string cls;
    gRotFp.clear();
    printf("FP %s\n", Hex(RunProgram(t, sink, cls)).c_str());
    printf("FN %s\n", Hex(gRotFp).c_str());
    return 0;
  }
  verif::Config cfg{"C04", "determinism",
                    "programs: small (2-10 steps of the shared 32-op generator), mid (spheres of 4608 / 32768 triangles: Boolean + Refine/Simplify/CalculateNormals/Hull/SetTolerance), large (131072 triangles, above the 1e5 gates), 2D batches below and above 1024 edges with Offset, polygon triangulation; fingerprint = every exported field of every value (IDs relabelled); compared: two runs in one process, 6 derived schedule tapes with arena widths 1-16 (mock TBB) or worker counts 1,2,3,5,8,16 (real TBB), and the serial-backend build in a separate process; non-trivial = some parallel region actually ran out of order / on several workers / with a split reduce or scan body; distinct = program tape",
                    24};
  return verif::run_main(argc, argv, cfg, Body);
}
