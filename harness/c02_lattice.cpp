// C02 (b): CSG programs over integer-lattice boxes vs a voxel-set reference
// model.  Coincident faces/edges/vertices/whole copies are the norm here: this
// is the symbolic-perturbation regime.  Oracle: exact cell count == volume,
// every cell centre classifies (by solid-angle winding on the *export*) as
// the model says, Status NoError.
#include "common/verif.h"
#include "gen/solids.h"
#include "oracle/wind3.h"

using namespace manifold;
using verif::Outcome;
using verif::Tape;

namespace {
struct Vox {
  int G;
  std::vector<char> c;
  Vox(int g = 0) : G(g), c(size_t(g) * g * g, 0) {}
  char& at(int x, int y, int z) { return c[(size_t(x) * G + y) * G + z]; }
  long count() const { long n = 0; for (char v : c) n += v; return n; }
};
Vox BoxVox(int G, const gen::IBox& b) {
  Vox v(G);
  for (int x = b.lo[0]; x < b.hi[0]; ++x)
    for (int y = b.lo[1]; y < b.hi[1]; ++y)
      for (int z = b.lo[2]; z < b.hi[2]; ++z) v.at(x, y, z) = 1;
  return v;
}
Vox Combine(const Vox& a, const Vox& b, OpType op) {
  Vox r(a.G);
  for (size_t i = 0; i < r.c.size(); ++i)
    r.c[i] = op == OpType::Add ? (a.c[i] | b.c[i]) : op == OpType::Subtract ? (a.c[i] & !b.c[i]) : (a.c[i] & b.c[i]);
  return r;
}

struct Ctx {
  Tape& t;
  Outcome& o;
  int G;
  int leavesLeft;
  std::vector<gen::IBox> leaves;
  int forced = 0, ops = 0;
};

// Known finding F41: on exactly coincident lattice operands the Boolean kernel occasionally (about one
// program in 1e5) returns a result with a *diagonal* face cutting through cells (a vertex off the
// lattice planes, volume off by a fraction of a cell).  A correct lattice result has only axis-aligned
// faces, so a mismatch is routed to the finding exactly when the export contains a non-degenerate
// triangle whose normal is not parallel to an axis; every other mismatch (whole cells lost or
// gained, wrong operand, wrong side of a plane) stays a violation.
bool HasDiagonalFace(const oracle::Soup& s) {
  for (size_t i = 0; i < s.t.size(); ++i) {
    oracle::V3 a = s.A(i), b = s.B(i), c = s.C(i);
    double ux = b.x - a.x, uy = b.y - a.y, uz = b.z - a.z, vx = c.x - a.x, vy = c.y - a.y, vz = c.z - a.z;
    double nx = uy * vz - uz * vy, ny = uz * vx - ux * vz, nz = ux * vy - uy * vx;
    int nonzero = (std::abs(nx) > 1e-9) + (std::abs(ny) > 1e-9) + (std::abs(nz) > 1e-9);
    if (nonzero >= 2) return true;
  }
  return false;
}
bool Mismatch(Outcome& o, const oracle::Soup& s, const std::string& sig, const std::string& msg) {
  if (HasDiagonalFace(s)) o.known("F41-lattice-diagonal-face", sig + "+diagonal-face", msg);
  else o.fail(sig, msg);
  return false;
}

const char* OpName(OpType op) { return op == OpType::Add ? "+" : op == OpType::Subtract ? "-" : "^"; }

std::pair<Manifold, Vox> GenNode(Ctx& c, int depth) {
  auto& d = c.o.desc;
  int kind = (depth <= 0 || c.leavesLeft <= 1) ? 0 : c.t.range(0, 7);
  if (kind <= 1) {  // leaf
    --c.leavesLeft;
    gen::IBox b;
    if (!c.leaves.empty() && c.t.chance(40)) {
      b = c.leaves[c.t.range(0, int(c.leaves.size()) - 1)];  // exact copy
      d << "Copy[" << b.lo[0] << "," << b.lo[1] << "," << b.lo[2] << ":" << b.hi[0] << "," << b.hi[1] << "," << b.hi[2] << "]";
    } else {
      b = gen::GenIBox(c.t, c.G, d);
    }
    c.leaves.push_back(b);
    int how = c.t.range(0, 2);
    d << "/" << how;
    return {gen::MakeIBox(b, how), BoxVox(c.G, b)};
  }
  std::pair<Manifold, Vox> r;
  if (kind <= 4) {  // binary
    OpType op = OpType(c.t.range(0, 2));
    d << "(";
    auto a = GenNode(c, depth - 1);
    d << " " << OpName(op) << " ";
    auto b = GenNode(c, depth - 1);
    d << ")";
    r = {a.first.Boolean(b.first, op), Combine(a.second, b.second, op)};
    ++c.ops;
  } else if (kind == 5) {  // batch
    OpType op = OpType(c.t.range(0, 2));
    int n = c.t.range(2, 4);
    d << "Batch" << OpName(op) << "(";
    std::vector<Manifold> ms;
    Vox acc;
    for (int i = 0; i < n; ++i) {
      if (i) d << ", ";
      auto a = GenNode(c, depth - 1);
      ms.push_back(a.first);
      acc = i ? Combine(acc, a.second, op) : a.second;
    }
    d << ")";
    r = {Manifold::BatchBoolean(ms, op), acc};
    c.ops += n - 1;
  } else if (kind == 6) {  // Split
    bool first = c.t.flip();
    d << "Split" << (first ? "1" : "2") << "(";
    auto a = GenNode(c, depth - 1);
    d << ", ";
    auto b = GenNode(c, depth - 1);
    d << ")";
    auto pr = a.first.Split(b.first);
    r = {first ? pr.first : pr.second, Combine(a.second, b.second, first ? OpType::Intersect : OpType::Subtract)};
    ++c.ops;
  } else {  // axis-aligned plane at an integer offset
    // planes also beyond the grid on either side (origin between plane and body)
    int axis = c.t.range(0, 2), sign = c.t.flip() ? 1 : -1, off = c.t.range(-3, c.G + 3);
    int which = c.t.range(0, 2);  // 0 Trim, 1 SplitByPlane.first, 2 .second
    d << (which == 0 ? "Trim" : which == 1 ? "PlaneSplit1" : "PlaneSplit2") << "[axis" << axis << (sign > 0 ? "+" : "-") << ",d=" << off << "](";
    auto a = GenNode(c, depth - 1);
    d << ")";
    vec3 n(0.0);
    n[axis] = sign;
    // plane n.p = sign*off ; kept side: n.p > offset
    double offset = sign * off;
    Manifold m = which == 0 ? a.first.TrimByPlane(n, offset) : which == 1 ? a.first.SplitByPlane(n, offset).first : a.first.SplitByPlane(n, offset).second;
    bool keepPositive = which != 2;
    Vox v(c.G);
    for (int x = 0; x < c.G; ++x)
      for (int y = 0; y < c.G; ++y)
        for (int z = 0; z < c.G; ++z) {
          int p[3] = {x, y, z};
          double centre = p[axis] + 0.5;
          bool pos = sign * centre > offset;
          v.at(x, y, z) = a.second.at(x, y, z) && (pos == keepPositive);
        }
    r = {m, v};
    ++c.ops;
  }
  if (c.t.chance(64)) {  // force evaluation of this intermediate now (eager)
    d << "!";
    (void)r.first.NumTri();
    ++c.forced;
  }
  return r;
}

// a flattened union of more than 1000 leaves (the evaluator batches unions in
// chunks of 1000) against the voxel model
void BigBatch(Tape& t, Outcome& o) {
  const int G = 10;
  int n = t.range(1001, 1080);
  bool chained = t.flip();
  o.desc << "BigUnion(" << n << " boxes on a 10-grid, " << (chained ? "chained +" : "BatchBoolean") << ") first=";
  Vox model(G);
  std::vector<Manifold> ms;
  for (int i = 0; i < n; ++i) {
    gen::IBox b;
    for (int k = 0; k < 3; ++k) { b.lo[k] = t.range(0, G - 1); b.hi[k] = b.lo[k] + t.range(1, std::min(3, G - b.lo[k])); }
    if (i < 3) o.desc << "[" << b.lo[0] << "," << b.lo[1] << "," << b.lo[2] << ":" << b.hi[0] << "," << b.hi[1] << "," << b.hi[2] << "]";
    ms.push_back(gen::MakeIBox(b, 0));
    Vox v = BoxVox(G, b);
    for (size_t q = 0; q < v.c.size(); ++q) model.c[q] |= v.c[q];
  }
  Manifold m;
  if (chained) { m = ms[0]; for (int i = 1; i < n; ++i) m = m + ms[i]; }
  else m = Manifold::BatchBoolean(ms, OpType::Add);
  o.nontrivial = true;
  o.cls("big-union>1000");
  o.fingerprint = verif::fnv(t.d, t.n);
  if (m.Status() != Manifold::Error::NoError) { o.fail("lattice:status", "big union has error status"); return; }
  oracle::Soup s = oracle::MakeSoup(m);
  long cells = model.count();
  double vol = oracle::Volume(s);
  if (std::abs(vol - cells) > 1e-9 * cells) { Mismatch(o, s, "lattice:volume", verif::fmt("big union: export volume %.17g, voxel model %ld cells", vol, cells)); return; }
  for (int x = 0; x < G; x += 3)
    for (int y = 0; y < G; y += 2)
      for (int z = 0; z < G; ++z) {
        double w = oracle::Winding(s, oracle::V3(x + 0.5, y + 0.5, z + 0.5));
        if (std::lround(w) != model.at(x, y, z)) { Mismatch(o, s, "lattice:cell", verif::fmt("big union cell (%d,%d,%d): winding %.6g, model %d", x, y, z, w, int(model.at(x, y, z)))); return; }
      }
}

void Body(Tape& t, Outcome& o) {
  if (t.chance(1)) { BigBatch(t, o); return; }
  Ctx c{t, o, t.range(2, 5), t.range(2, 8)};
  o.desc << "G=" << c.G << " ";
  auto r = GenNode(c, t.range(1, 4));
  const Manifold& m = r.first;
  Vox& model = r.second;

  // non-trivial: some pair of leaves is coincident somewhere (shares a plane
  // coordinate while touching/overlapping as closed sets)
  bool coincident = false;
  for (size_t i = 0; i < c.leaves.size() && !coincident; ++i)
    for (size_t j = i + 1; j < c.leaves.size() && !coincident; ++j) {
      auto &a = c.leaves[i], &b = c.leaves[j];
      bool touch = true, shared = false;
      for (int k = 0; k < 3; ++k) {
        if (a.hi[k] < b.lo[k] || b.hi[k] < a.lo[k]) touch = false;
        if (a.lo[k] == b.lo[k] || a.hi[k] == b.hi[k] || a.lo[k] == b.hi[k] || a.hi[k] == b.lo[k]) shared = true;
      }
      coincident = touch && shared;
    }
  o.nontrivial = coincident && c.ops >= 1;
  if (c.forced) o.cls("eager-intermediate");
  if (c.ops >= 3) o.cls("ops>=3");
  o.cls(coincident ? "coincident" : "no-coincidence");

  if (m.Status() != Manifold::Error::NoError) {
    o.fail("lattice:status", verif::fmt("Status=%d on a valid lattice program", int(m.Status())));
    return;
  }
  MeshGL64 g = m.GetMeshGL64();
  if (getenv("VERIF_DEBUG")) {
    fprintf(stderr, "RESULT nv=%zu nt=%zu volume()=%.17g\n", g.NumVert(), g.NumTri(), m.Volume());
    for (size_t v = 0; v < g.NumVert(); ++v) fprintf(stderr, "  v%zu (%.17g,%.17g,%.17g)\n", v, g.vertProperties[g.numProp * v], g.vertProperties[g.numProp * v + 1], g.vertProperties[g.numProp * v + 2]);
    for (size_t t3 = 0; t3 < g.NumTri(); ++t3) fprintf(stderr, "  tri %zu %zu %zu\n", size_t(g.triVerts[3 * t3]), size_t(g.triVerts[3 * t3 + 1]), size_t(g.triVerts[3 * t3 + 2]));
  }
  oracle::Soup s = oracle::MakeSoup(g);
  long cells = model.count();
  o.cls(cells == 0 ? "empty-result" : "nonempty-result");
  double vol = oracle::Volume(s);
  o.fingerprint = verif::fnv_str(o.desc.str());
  if (std::abs(vol - cells) > 1e-9 * std::max(1L, cells)) {
    Mismatch(o, s, "lattice:volume", verif::fmt("export volume %.17g, voxel model %ld cells", vol, cells));
    return;
  }
  for (int x = 0; x < c.G; ++x)
    for (int y = 0; y < c.G; ++y)
      for (int z = 0; z < c.G; ++z) {
        double w = s.t.empty() ? 0.0 : oracle::Winding(s, oracle::V3(x + 0.5, y + 0.5, z + 0.5));
        int in = int(std::lround(w));
        if (std::abs(w - in) > 1e-6 || in != model.at(x, y, z)) {
          Mismatch(o, s, "lattice:cell", verif::fmt("cell (%d,%d,%d): winding %.9g, model %d", x, y, z, w, int(model.at(x, y, z))));
          return;
        }
      }
  // statistic only: the statement promises the exact voxel *solid*, not
  // integer vertex coordinates
  for (auto& p : s.v)
    for (int k = 0; k < 3; ++k)
      if (p[k] != std::floor(p[k])) { o.counters["non_integer_vertex_coords"]++; }
}
}  // namespace

int main(int argc, char** argv) {
  verif::Config cfg{"C02", "lattice",
                    "CSG programs (<=8 leaves, depth<=4; Boolean/BatchBoolean/Split/TrimByPlane/SplitByPlane; random eager forcing) over integer boxes on a grid<=5, leaves built through 3 transform chains, copies of earlier leaves common; non-trivial = >=1 operation and some pair of leaves touches/overlaps while sharing a face plane coordinate; distinct = hash of the program text",
                    6};
  return verif::run_main(argc, argv, cfg, Body);
}
