// C17: constructors and transforms produce the solid their parameters define.
// Analytic membership (with a derived faceting band) vs solid-angle winding on
// the export; documented-invalid arguments give InvalidConstruction;
// transforms obey p in T(M) <=> T^-1 p in M, |det| volume scaling, positive
// volume under mirrors, exact 90-degree rotations; Quality determines segment
// counts as documented.
#include <set>
#include <array>
#include "common/verif.h"
#include "gen/solids.h"
#include "oracle/geom2.h"
#include "oracle/wind3.h"

using namespace manifold;
using oracle::Soup;
using oracle::V3;
using verif::Outcome;
using verif::Tape;

namespace {

// analytic shape: returns 1 inside, 0 outside, -1 inside the faceting band / guard
using Member = std::function<int(const V3&)>;

int PolyMember(const Polygons& ps, vec2 p, double band) {
  if (oracle::EdgeDist(ps, p) <= band) return -1;
  int w = oracle::Winding2(ps, p);
  return w == 0 ? 0 : w == 1 ? 1 : -1;
}

struct Built {
  Manifold m;
  Member member;
  V3 lo, hi;
  bool expectInvalid = false;
  std::string kind;
};

Built GenShape(Tape& t, std::ostream& d, double guardScale) {
  Built b;
  int kind = t.range(0, 6);
  const double g = 1e-9 * guardScale;
  switch (kind) {
    case 0: {  // Cube
      vec3 s(t.real(0.2, 3), t.real(0.2, 3), t.real(0.2, 3));
      bool c = t.flip();
      int bad = t.chance(32) ? t.range(1, 3) : 0;
      if (bad == 1) s[t.range(0, 2)] = -t.real(0.1, 1);
      if (bad == 2) s = vec3(0.0);
      if (bad == 3) s[t.range(0, 2)] = 0;  // one zero extent: documented valid only if not all zero -> flat, skip membership
      d << "Cube(" << gen::num(s.x) << "," << gen::num(s.y) << "," << gen::num(s.z) << "," << c << ")";
      b.m = Manifold::Cube(s, c);
      b.kind = "cube";
      b.expectInvalid = bad == 1 || bad == 2;
      if (bad == 3) { b.kind = "cube-flat"; b.member = nullptr; break; }
      vec3 lo = c ? -s / 2.0 : vec3(0.0), hi = c ? s / 2.0 : s;
      b.lo = V3(lo.x, lo.y, lo.z); b.hi = V3(hi.x, hi.y, hi.z);
      b.member = [lo, hi, g](const V3& p) {
        double dmin = 1e300; bool in = true;
        for (int k = 0; k < 3; ++k) { double a = p[k] - lo[k], c2 = hi[k] - p[k]; in &= a > 0 && c2 > 0; dmin = std::min({dmin, std::abs(a), std::abs(c2)}); }
        if (dmin <= g) return -1;
        return in ? 1 : 0;
      };
      break;
    }
    case 1: {  // Tetrahedron
      d << "Tetrahedron()";
      b.m = Manifold::Tetrahedron();
      b.kind = "tet";
      b.lo = V3(-1, -1, -1); b.hi = V3(1, 1, 1);
      b.member = [g](const V3& p) {
        // convex hull of (1,1,1),(1,-1,-1),(-1,1,-1),(-1,-1,1): four planes n.p <= 1 with n = (-1,-1,-1),(-1,1,1),(1,-1,1),(1,1,-1)
        const double n[4][3] = {{-1, -1, -1}, {-1, 1, 1}, {1, -1, 1}, {1, 1, -1}};
        bool in = true; double dmin = 1e300;
        for (auto& q : n) { double v = (1 - (q[0] * p.x + q[1] * p.y + q[2] * p.z)) / std::sqrt(3.0); in &= v > 0; dmin = std::min(dmin, std::abs(v)); }
        if (dmin <= g) return -1;
        return in ? 1 : 0;
      };
      break;
    }
    case 2: {  // Sphere
      double r = t.real(0.3, 2);
      int seg = t.range(0, 40);
      bool bad = t.chance(24);
      if (bad) r = -t.real(0, 1);
      d << "Sphere(" << gen::num(r) << "," << seg << ")";
      b.m = Manifold::Sphere(r, seg);
      b.kind = "sphere";
      b.expectInvalid = bad;
      int n = seg > 0 ? (seg + 3) / 4 : std::max(1, Quality::GetCircularSegments(r) / 4);
      // inner radius of the geodesic facets: conservative
      double inner = n >= 2 ? r * std::cos(std::min(1.4, 1.5 * M_PI / (2 * n))) : 0.55 * r;
      b.lo = V3(-r, -r, -r); b.hi = V3(r, r, r);
      b.member = [r, inner, g](const V3& p) { double l = oracle::norm(p); if (l < inner - g) return 1; if (l > r + g) return 0; return -1; };
      break;
    }
    case 3: {  // Cylinder / cone: exact regular n-gon frustum
      double h = t.real(0.3, 2), r0 = t.real(0.2, 1.5), r1 = t.flip() ? t.real(0, 1.5) : -1.0;
      int seg = t.range(3, 24);
      bool c = t.flip();
      int bad = t.chance(32) ? t.range(1, 3) : 0;
      if (bad == 1) h = -h;
      if (bad == 2) r0 = -r0;
      if (bad == 3) { r0 = 0; r1 = t.flip() ? 0.0 : -1.0; }
      bool apexDown = !bad && t.chance(32);
      if (apexDown) { r0 = 0; r1 = t.real(0.2, 1.5); }
      d << "Cylinder(" << gen::num(h) << "," << gen::num(r0) << "," << gen::num(r1) << "," << seg << "," << c << ")";
      b.m = Manifold::Cylinder(h, r0, r1, seg, c);
      b.kind = "cylinder";
      b.expectInvalid = bad != 0;
      double rTop = r1 < 0 ? r0 : r1, z0 = c ? -h / 2 : 0.0, rmax = std::max(r0, rTop);
      b.lo = V3(-rmax, -rmax, z0); b.hi = V3(rmax, rmax, z0 + h);
      b.member = [=](const V3& p) {
        double tz = (p.z - z0) / h;
        if (std::abs(p.z - z0) <= g || std::abs(p.z - z0 - h) <= g) return -1;
        if (tz < 0 || tz > 1) return 0;
        double rad = r0 + (rTop - r0) * tz;
        // regular n-gon with a vertex at angle 0: apothem test per sector.
        // An apex-down cone is built by mirroring in z only, so the n-gon keeps its phase.
        double ang = std::atan2(p.y, p.x), sector = 2 * M_PI / seg;
        double rel = ang - sector * std::floor(ang / sector) - sector / 2;
        double dist = oracle::norm(V3(p.x, p.y, 0)) * std::cos(rel) - rad * std::cos(sector / 2);  // signed distance to the facet line
        // true distance to the slanted side is smaller by the cone slope; be conservative with 2x
        if (std::abs(dist) <= 2 * g + 1e-12) return -1;
        return dist < 0 ? 1 : 0;
      };
      break;
    }
    case 4: {  // Extrude with twist / scale / divisions
      std::ostringstream tmp;
      bool twisted = t.flip();
      Polygons ps;
      ps.push_back(twisted ? gen::GenStar(t, 3, 9, 0.75, 1.1, tmp, 0.3) : gen::GenStar(t, 3, 9, 0.4, 1.2, tmp));
      bool hole = !twisted && t.chance(64);
      if (hole) { ps[0] = gen::GenStar(t, 6, 9, 0.9, 1.3, tmp, 0.3); auto hl = gen::GenStar(t, 3, 6, 0.2, 0.6, tmp); std::reverse(hl.begin(), hl.end()); ps.push_back(hl); }
      double h = t.real(0.3, 1.5);
      int div = twisted ? t.range(1, 4) : t.range(0, 3);
      double tw = twisted ? t.real(-8, 8) * (div + 1) : 0.0;
      vec2 sc = t.flip() ? vec2(t.real(0.3, 1.3), t.real(0.3, 1.3)) : vec2(1.0);
      bool cone = !hole && t.chance(24);
      if (cone) sc = vec2(0.0);
      bool bad = t.chance(24);
      if (bad) h = -h;
      d << "Extrude(" << tmp.str() << "," << gen::num(h) << "," << div << "," << gen::num(tw) << ",(" << gen::num(sc.x) << "," << gen::num(sc.y) << "))";
      b.m = Manifold::Extrude(ps, h, div, tw, sc);
      b.kind = twisted ? "extrude-twist" : "extrude";
      b.expectInvalid = bad;
      b.lo = V3(-1.4, -1.4, 0); b.hi = V3(1.4, 1.4, std::abs(h));
      int layers = div + 1;
      auto layerPoly = [=](int k) {
        double a = double(k) / layers, ang = tw * a * M_PI / 180;
        vec2 s(1 + (sc.x - 1) * a, 1 + (sc.y - 1) * a);
        Polygons q = ps;
        for (auto& c : q) for (auto& v : c) { vec2 r(v.x * std::cos(ang) - v.y * std::sin(ang), v.x * std::sin(ang) + v.y * std::cos(ang)); v = vec2(r.x * s.x, r.y * s.y); }
        return q;
      };
      b.member = [=](const V3& p) {
        if (std::abs(p.z) <= g || std::abs(p.z - h) <= g) return -1;
        if (p.z < 0 || p.z > h) return 0;
        double f = p.z / h * layers;
        int k = std::min(layers - 1, int(std::floor(f)));
        double tt = f - k;
        Polygons A = layerPoly(k), B = layerPoly(k + 1), Q = A;
        double band = 0;
        for (size_t c = 0; c < A.size(); ++c)
          for (size_t i = 0; i < A[c].size(); ++i) {
            Q[c][i] = A[c][i] * (1 - tt) + B[c][i] * tt;
            size_t j = (i + 1) % A[c].size();
            vec2 de = (B[c][j] - B[c][i]) - (A[c][j] - A[c][i]);
            band = std::max(band, std::sqrt(de.x * de.x + de.y * de.y) / 4);
          }
        return PolyMember(Q, vec2(p.x, p.y), band * 1.01 + 2 * g);
      };
      break;
    }
    case 5: {  // Revolve, incl. partial angle and profiles crossing the axis
      std::ostringstream tmp;
      SimplePolygon prof = gen::GenStar(t, 3, 8, 0.2, 0.6, tmp);
      double off = t.chance(64) ? t.real(-0.3, 0.3) : t.real(0.7, 1.2);
      for (auto& v : prof) v.x += off;
      int seg = t.range(3, 20);
      double deg = t.flip() ? 360.0 : t.real(20, 340);
      if (t.chance(24)) deg = t.real(361, 720);  // documented: clamped to 360
      bool allLeft = t.chance(16);
      if (allLeft) for (auto& v : prof) v.x = -std::abs(v.x) - 0.1;
      d << "Revolve(" << tmp.str() << "+x" << gen::num(off) << "," << seg << "," << gen::num(deg) << ")";
      b.m = Manifold::Revolve({prof}, seg, deg);
      b.kind = off < 0.6 ? "revolve-axis-crossing" : "revolve";
      {
        bool anyRight = false;  // documented: only the x>=0 part is used; none => invalid
        for (auto& v : prof) anyRight |= v.x >= 0;
        b.expectInvalid = !anyRight;
      }
      double rmax = 0, ymin = 1e300, ymax = -1e300;
      for (auto& v : prof) { rmax = std::max(rmax, v.x); ymin = std::min(ymin, v.y); ymax = std::max(ymax, v.y); }
      b.lo = V3(-rmax, -rmax, ymin); b.hi = V3(rmax, rmax, ymax);
      double degEff = std::min(deg, 360.0);
      double dPhi = degEff / seg * M_PI / 180;
      Polygons pp{prof};
      b.member = [=](const V3& p) {
        double rho = std::sqrt(p.x * p.x + p.y * p.y);
        double phi = std::atan2(p.y, p.x);
        if (phi < 0) phi += 2 * M_PI;
        double total = degEff * M_PI / 180;
        if (degEff < 360) {
          // near the two end caps: distance to the cap half-planes
          double dCap = std::min(std::abs(rho * std::sin(phi)), std::abs(rho * std::sin(phi - total)));
          if (dCap <= 2 * g && rho * std::cos(phi) > -g) return -1;
          if (phi > total) return 0;
        }
        if (rho <= 2 * g) return -1;
        int sl = std::min(seg - 1, int(std::floor(phi / dPhi)));
        double mid = (sl + 0.5) * dPhi;
        double c = std::cos(dPhi / 2) / std::cos(phi - mid);  // facet radius factor at this angle
        // only the x>=0 part of the profile is used; a point with rho/c >= 0 is tested against the profile itself
        vec2 q(rho / c, p.z);
        double ed = oracle::EdgeDist(pp, q);
        if (ed <= 4 * g / c + 1e-12) return -1;
        int w = oracle::Winding2(pp, q);
        return w == 1 ? 1 : w == 0 ? 0 : -1;
      };
      break;
    }
    case 6: {  // LevelSet of a 1-Lipschitz min/max tree
      double r = t.real(0.5, 1.0), edge = t.real(0.12, 0.4), level = t.real(-0.15, 0.15);
      int shape = t.range(0, 3);
      double tol = t.chance(96) ? t.real(0.002, 0.05) : -1.0;
      vec3 c2(t.real(0.3, 0.9), t.real(-0.3, 0.3), t.real(-0.3, 0.3));
      double planeOff = t.real(-0.2, 0.4);
      d << "LevelSet(shape" << shape << ",r=" << gen::num(r) << ",c2=(" << gen::num(c2.x) << "," << gen::num(c2.y) << "," << gen::num(c2.z) << "),plane=" << gen::num(planeOff) << ",edge=" << gen::num(edge) << ",level=" << gen::num(level) << ",tol=" << gen::num(tol) << ")";
      auto sdf = [=](vec3 p) {
        double s = r - la::length(p);                                                    // ball
        if (shape == 1) s = std::min(s, planeOff - p.z);                                 // intersect half-space
        if (shape == 2) s = std::max(s, 0.6 * r - la::length(p - c2));                   // union second ball
        if (shape == 3) { vec3 q = la::abs(p) - vec3(0.7 * r); s = std::min(s, -std::max({q.x, q.y, q.z})); }  // intersect (Chebyshev) box: 1-Lipschitz
        return s;
      };
      b.m = Manifold::LevelSet(sdf, Box(vec3(-2.2), vec3(2.2)), edge, level, tol);
      b.kind = tol > 0 ? "levelset-tol" : "levelset";
      b.lo = V3(-1.6, -1.6, -1.6); b.hi = V3(1.9, 1.6, 1.6);
      b.member = [=](const V3& p) {
        double v = sdf(vec3(p.x, p.y, p.z)) - level;
        if (std::abs(v) <= 1.5 * edge) return -1;
        return v > 0 ? 1 : 0;
      };
      if (tol > 0 && b.m.Status() == Manifold::Error::NoError) {
        MeshGL64 gg = b.m.GetMeshGL64();
        for (size_t i = 0; i < gg.vertProperties.size(); i += gg.numProp) {
          double v = sdf(vec3(gg.vertProperties[i], gg.vertProperties[i + 1], gg.vertProperties[i + 2])) - level;
          if (std::abs(v) > tol * (1 + 1e-9)) { b.kind = "levelset-tol-VIOLATED:" + gen::num(v); break; }
        }
      }
      break;
    }
  }
  return b;
}

bool JudgeShape(const Built& b, Tape& t, Outcome& o) {
  if (b.expectInvalid) {
    if (b.m.Status() != Manifold::Error::InvalidConstruction) { o.fail("construct:invalid-args", verif::fmt("%s with documented-invalid arguments returned Status %d, expected InvalidConstruction", b.kind.c_str(), int(b.m.Status()))); return false; }
    o.cls("invalid-args:" + b.kind);
    return true;
  }
  if (b.kind.rfind("levelset-tol-VIOLATED", 0) == 0) { o.fail("construct:levelset-tolerance", "a vertex has |sdf-level| above the requested tolerance: " + b.kind); return false; }
  if (b.m.Status() != Manifold::Error::NoError) { o.fail("construct:status", verif::fmt("%s with valid arguments returned Status %d", b.kind.c_str(), int(b.m.Status()))); return false; }
  if (!b.member) return true;
  Soup s = oracle::MakeSoup(b.m);
  if (s.t.empty()) { o.fail("construct:empty", b.kind + " with valid arguments is empty"); return false; }
  V3 e = b.hi - b.lo;
  int nearIn = 0, nearOut = 0;
  long used = 0, skipped = 0;
  for (int i = 0; i < 150; ++i) {
    V3 p(b.lo.x - 0.15 * e.x + 1.3 * e.x * t.unit(), b.lo.y - 0.15 * e.y + 1.3 * e.y * t.unit(), b.lo.z - 0.15 * e.z + 1.3 * e.z * t.unit());
    if (i >= 60 && !s.t.empty()) {
      // concentrate near the surface: a point just off a random triangle
      size_t k = size_t(t.range(0, int(std::min<size_t>(s.t.size(), 60000)) - 1));
      V3 a = s.A(k), bb = s.B(k), c = s.C(k), n = oracle::cross(bb - a, c - a);
      double l = oracle::norm(n);
      if (l > 0) p = (a + bb + c) * (1.0 / 3) + n * ((t.flip() ? 1 : -1) * (0.002 + 0.2 * t.unit() * t.unit()) * oracle::norm(e) / l);
    }
    int want = b.member(p);
    if (want < 0) { ++skipped; continue; }
    double w = oracle::Winding(s, p);
    long k = std::lround(w);
    ++used;
    if (std::abs(w - k) > 1e-6 || k != want) {
      o.fail("construct:membership-" + b.kind.substr(0, b.kind.find('-') == std::string::npos ? b.kind.size() : b.kind.size()), verif::fmt("point (%.17g,%.17g,%.17g): defining inequality says %d, mesh winding %.9g", p.x, p.y, p.z, want, w));
      return false;
    }
    (want ? nearIn : nearOut)++;
  }
  o.counters["points_used"] += used;
  o.counters["points_skipped_band"] += skipped;
  o.nontrivial = nearIn > 0 && nearOut > 0;
  o.cls(b.kind);
  return true;
}

// ---- transforms ----
void JudgeTransforms(Tape& t, Outcome& o) {
  auto& d = o.desc;
  Manifold base = gen::GenPose(t, gen::GenPrimitive(t, d), 1, d, 0.3);
  Soup s0 = oracle::MakeSoup(base);
  double v0 = oracle::Volume(s0);
  int k = t.range(0, 6);
  mat3x4 M(la::identity);
  Manifold r;
  if (k == 0) { vec3 v(t.real(-2, 2), t.real(-2, 2), t.real(-2, 2)); M[3] = v; r = base.Translate(v); d << ".Translate"; }
  else if (k == 1) {
    vec3 a(t.real(0, 360), t.real(0, 360), t.real(0, 360));
    r = base.Rotate(a.x, a.y, a.z); d << ".Rotate(" << gen::num(a.x) << "," << gen::num(a.y) << "," << gen::num(a.z) << ")";
    // documented: rotation about X, then Y, then Z
    auto rx = [](double q) { double c = std::cos(q), s = std::sin(q); return mat3(vec3(1, 0, 0), vec3(0, c, s), vec3(0, -s, c)); };
    auto ry = [](double q) { double c = std::cos(q), s = std::sin(q); return mat3(vec3(c, 0, -s), vec3(0, 1, 0), vec3(s, 0, c)); };
    auto rz = [](double q) { double c = std::cos(q), s = std::sin(q); return mat3(vec3(c, s, 0), vec3(-s, c, 0), vec3(0, 0, 1)); };
    mat3 R = rz(a.z * M_PI / 180) * ry(a.y * M_PI / 180) * rx(a.x * M_PI / 180);
    M = mat3x4(R, vec3(0.0));
  }
  else if (k == 2) { vec3 sc(t.real(0.2, 3) * (t.chance(48) ? -1 : 1), t.real(0.2, 3), t.real(0.2, 3) * (t.chance(48) ? -1 : 1)); M[0][0] = sc.x; M[1][1] = sc.y; M[2][2] = sc.z; r = base.Scale(sc); d << ".Scale(" << gen::num(sc.x) << "," << gen::num(sc.y) << "," << gen::num(sc.z) << ")"; }
  else if (k == 3) { vec3 n(t.real(-1, 1), t.real(-1, 1), 0.2 + t.unit()); vec3 u = la::normalize(n); mat3 R = mat3(la::identity) - 2.0 * la::outerprod(u, u); M = mat3x4(R, vec3(0.0)); r = base.Mirror(n); d << ".Mirror"; }
  else if (k == 4) { for (int c = 0; c < 4; ++c) for (int q = 0; q < 3; ++q) M[c][q] = (c == q ? 1.0 : 0.0) + t.real(-0.6, 0.6); if (std::abs(la::determinant(mat3(M))) < 1e-3) M[0][0] += 1; r = base.Transform(M); d << ".Transform"; }
  else if (k == 5) {
    // chain of transforms == product applied once
    vec3 v(t.real(-1, 1), t.real(-1, 1), t.real(-1, 1)), sc(t.real(0.5, 2), t.real(0.5, 2), t.real(0.5, 2));
    r = base.Translate(v).Scale(sc).Mirror(vec3(1, 0, 0)).Translate(-v);
    mat3x4 T1(la::identity), S(la::identity), Mi(la::identity), T2(la::identity);
    T1[3] = v; S[0][0] = sc.x; S[1][1] = sc.y; S[2][2] = sc.z; Mi[0][0] = -1; T2[3] = -v;
    auto mul = [](const mat3x4& a, const mat3x4& b2) { return mat3x4(mat3(a) * mat3(b2), mat3(a) * b2[3] + a[3]); };
    M = mul(T2, mul(Mi, mul(S, T1)));
    d << ".Translate.Scale.Mirror.Translate";
  } else {
    // exact 90-degree rotations of an integer-coordinate mesh
    Manifold box = Manifold::Cube(vec3(t.range(1, 4), t.range(1, 4), t.range(1, 4))).Translate(vec3(t.range(-3, 3), t.range(-3, 3), t.range(-3, 3)));
    int ax = t.range(0, 3), ay = t.range(0, 3), az = t.range(0, 3);
    Manifold rb = box.Rotate(90.0 * ax, 90.0 * ay, 90.0 * az);
    d << " ; IntBox.Rotate(" << 90 * ax << "," << 90 * ay << "," << 90 * az << ")";
    MeshGL64 g0 = box.GetMeshGL64(), g1 = rb.GetMeshGL64();
    auto rot = [&](long x, long y, long z, long* out) {
      for (int i = 0; i < ax; ++i) { long ny = -z, nz = y; y = ny; z = nz; }
      for (int i = 0; i < ay; ++i) { long nx = z, nz = -x; x = nx; z = nz; }
      for (int i = 0; i < az; ++i) { long nx = -y, ny = x; x = nx; y = ny; }
      out[0] = x; out[1] = y; out[2] = z;
    };
    std::multiset<std::array<double, 3>> want, got;
    for (size_t i = 0; i < g0.vertProperties.size(); i += g0.numProp) { long o3[3]; rot(std::lround(g0.vertProperties[i]), std::lround(g0.vertProperties[i + 1]), std::lround(g0.vertProperties[i + 2]), o3); want.insert({double(o3[0]) + 0.0, double(o3[1]) + 0.0, double(o3[2]) + 0.0}); }
    for (size_t i = 0; i < g1.vertProperties.size(); i += g1.numProp) got.insert({g1.vertProperties[i] + 0.0, g1.vertProperties[i + 1] + 0.0, g1.vertProperties[i + 2] + 0.0});
    if (want != got) { o.fail("transform:rotate90-exact", "rotation by multiples of 90 degrees did not permute integer coordinates exactly"); return; }
    o.cls("rotate90");
    o.nontrivial = true;
    return;
  }
  if (r.Status() != Manifold::Error::NoError) { o.fail("transform:status", ""); return; }
  Soup s1 = oracle::MakeSoup(r);
  double det = la::determinant(mat3(M));
  double v1 = oracle::Volume(s1);
  double scale = std::max(s0.scale(), s1.scale());
  if (std::abs(v1 - std::abs(det) * v0) > 1e-9 * (std::abs(det) * v0 + scale * scale * scale)) { o.fail("transform:volume", verif::fmt("V(T(M))=%.17g but |det|*V(M)=%.17g (det=%.6g)", v1, std::abs(det) * v0, det)); return; }
  if (v1 <= 0) { o.fail("transform:orientation", "volume is not positive after the transform (inward-facing)"); return; }
  if (std::abs(r.Volume() - v1) > 1e-9 * (v1 + scale * scale * scale)) { o.fail("transform:volume-getter", ""); return; }
  double guard = 64 * std::max(base.GetTolerance(), r.GetTolerance()) + 1e-9 * scale;
  V3 e = s0.hi - s0.lo;
  int both = 0;
  for (int i = 0; i < 60; ++i) {
    V3 p(s0.lo.x - 0.1 * e.x + 1.2 * e.x * t.unit(), s0.lo.y - 0.1 * e.y + 1.2 * e.y * t.unit(), s0.lo.z - 0.1 * e.z + 1.2 * e.z * t.unit());
    vec3 q = M * vec4(p.x, p.y, p.z, 1.0);
    V3 qq(q.x, q.y, q.z);
    int a = oracle::Classify(s0, p, guard), b2 = oracle::Classify(s1, qq, guard * std::max(1.0, std::cbrt(std::abs(det)) * 4));
    if (a < 0 || b2 < 0) continue;
    if (a != b2) { o.fail("transform:point-map", verif::fmt("transform kind %d: p inside M = %d but T(p) inside T(M) = %d", k, a, b2)); return; }
    both |= 1 << a;
  }
  o.nontrivial = both == 3;
  o.cls(det < 0 ? "transform-mirroring" : "transform-proper");
}

void JudgeWarp(Tape& t, Outcome& o) {
  auto& d = o.desc;
  // invertible shear-like warp x += a*sin(f*y) on a finely refined mesh
  Manifold base = gen::GenPose(t, gen::GenPrimitive(t, d, 3), 2, d, 0.2).RefineToLength(0.15);
  double a = t.real(0.05, 0.3), f = t.real(0.5, 2);
  d << ".RefineToLength(0.15).Warp(x+=" << gen::num(a) << "*sin(" << gen::num(f) << "*y))";
  Manifold w = t.flip() ? base.Warp([a, f](vec3& p) { p.x += a * std::sin(f * p.y); }) : base.WarpBatch([a, f](VecView<vec3> vs) { for (auto& p : vs) p.x += a * std::sin(f * p.y); });
  if (w.Status() != Manifold::Error::NoError) { o.fail("warp:status", ""); return; }
  Soup s0 = oracle::MakeSoup(base), s1 = oracle::MakeSoup(w);
  // faceting band of the warped piecewise-linear surface: a*f^2*L^2/8 with L the longest edge
  double L = 0;
  for (size_t i = 0; i < s0.t.size(); ++i) L = std::max({L, oracle::norm(s0.A(i) - s0.B(i)), oracle::norm(s0.B(i) - s0.C(i)), oracle::norm(s0.C(i) - s0.A(i))});
  double band = a * f * f * L * L / 8 + 1e-9;
  V3 e = s0.hi - s0.lo;
  int both = 0;
  for (int i = 0; i < 60; ++i) {
    V3 p(s0.lo.x - 0.1 * e.x + 1.2 * e.x * t.unit(), s0.lo.y - 0.1 * e.y + 1.2 * e.y * t.unit(), s0.lo.z - 0.1 * e.z + 1.2 * e.z * t.unit());
    V3 q(p.x + a * std::sin(f * p.y), p.y, p.z);
    if (oracle::SurfaceDist(s0, p) <= 2 * band || oracle::SurfaceDist(s1, q) <= 2 * band) continue;
    int x = oracle::Classify(s0, p, 0), y = oracle::Classify(s1, q, 0);
    if (x < 0 || y < 0) continue;
    if (x != y) { o.fail("warp:point-map", "p inside M but f(p) not inside Warp(M) (or vice versa)"); return; }
    both |= 1 << x;
  }
  // vertices are mapped exactly
  MeshGL64 g0 = base.GetMeshGL64(), g1 = w.GetMeshGL64();
  if (g0.NumTri() != g1.NumTri() || g0.NumVert() != g1.NumVert()) { o.fail("warp:topology", "Warp changed the number of triangles/vertices"); return; }
  o.nontrivial = both == 3;
  o.cls("warp");
}

void JudgeQuality(Tape& t, Outcome& o) {
  auto& d = o.desc;
  int mode = t.range(0, 2);
  double radius = t.real(0.05, 20);
  int expect;
  if (mode == 0) {
    int n = t.range(3, 64);
    Quality::SetCircularSegments(n);
    d << "Quality::SetCircularSegments(" << n << ") r=" << gen::num(radius);
    expect = n;
  } else {
    double ang = t.real(1, 60), len = t.real(0.01, 3);
    Quality::SetMinCircularAngle(ang);
    Quality::SetMinCircularEdgeLength(len);
    d << "Quality angle=" << gen::num(ang) << " length=" << gen::num(len) << " r=" << gen::num(radius);
    double byAngle = std::floor(360.0 / ang), byLen = 2 * M_PI * radius / len, m = std::min(byAngle, byLen);
    double ra = 360.0 / ang;
    if (std::abs(ra - std::round(ra)) < 1e-9 || (byLen < byAngle && std::abs(byLen - std::round(byLen)) < 1e-9)) { Quality::ResetToDefaults(); o.exclude("segment count on an integer boundary"); return; }
    int n = int(std::floor(m));
    n = (n + 3) / 4 * 4;
    expect = std::max(n, 4);
  }
  int got = Quality::GetCircularSegments(radius);
  Manifold cyl = Manifold::Cylinder(1.0, radius);
  Manifold sph = Manifold::Sphere(radius);
  CrossSection circ = CrossSection::Circle(radius);
  Quality::ResetToDefaults();
  if (got != expect) { o.fail("quality:segments", verif::fmt("GetCircularSegments(%.17g)=%d, documented rule gives %d", radius, got, expect)); return; }
  if (cyl.NumVert() != size_t(2 * expect)) { o.fail("quality:cylinder", verif::fmt("default Cylinder has %zu vertices, expected 2*%d", cyl.NumVert(), expect)); return; }
  if (circ.NumVert() != size_t(expect)) { o.fail("quality:circle", verif::fmt("default Circle has %zu vertices, expected %d", circ.NumVert(), expect)); return; }
  int q = expect / 4 > 0 ? expect / 4 : 1;
  if (mode != 0 || expect % 4 == 0) {
    if (sph.NumTri() != size_t(8 * q * q)) { o.fail("quality:sphere", verif::fmt("default Sphere has %zu triangles, expected 8*(%d/4)^2", sph.NumTri(), expect)); return; }
  }
  if (Quality::GetCircularSegments(1.0) != 24 && false) {}
  o.nontrivial = true;
  o.cls(mode == 0 ? "quality-fixed" : "quality-angle-length");
}

void Body(Tape& t, Outcome& o) {
  Quality::ResetToDefaults();
  int mode = t.range(0, 9);
  if (mode <= 4) {
    Built b = GenShape(t, o.desc, 2.0);
    JudgeShape(b, t, o);
  } else if (mode <= 7) JudgeTransforms(t, o);
  else if (mode == 8) JudgeWarp(t, o);
  else JudgeQuality(t, o);
  o.fingerprint = verif::fnv_str(o.desc.str());
}
}  // namespace

int main(int argc, char** argv) {
  verif::Config cfg{"C17", "construct",
                    "Cube/Tetrahedron/Sphere/Cylinder+cone/Extrude (twist, divisions, non-uniform scaleTop, holes, cone)/Revolve (partial angle, >360, axis-crossing profiles)/LevelSet (min/max trees of exact ball/half-space/box distances, with and without tolerance) incl. documented-invalid arguments; analytic membership with a derived faceting band vs solid-angle winding at 150 points (90 of them just off the surface); transforms: point map through the matrix, |det| volume, positive volume under mirrors, transform chains vs matrix product, exact 90-degree rotations of integer boxes, invertible warps on refined meshes; Quality settings vs segment counts of default Cylinder/Sphere/Circle; non-trivial = decisive points on both sides; distinct = case text hash",
                    14};
  return verif::run_main(argc, argv, cfg, Body);
}
