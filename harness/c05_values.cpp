// C05: Manifolds and CrossSections are values.  A history of public operations
// over a growing pool; every slot that has been observed once must keep a
// byte-identical fingerprint after every later step, copies equal their
// source, and a twin run that observes everything at creation must agree with
// the lazily observed run (modulo mesh IDs, whose counter is global).
#include <map>

#include "common/verif.h"
#include "gen/program.h"
#include "manifold/cross_section.h"

using namespace manifold;
using verif::Outcome;
using verif::Tape;

namespace {

template <class T>
uint64_t H(const std::vector<T>& v, uint64_t h) { return verif::fnv_vec(v, h); }
uint64_t Hd(double d, uint64_t h) { d += 0.0; return verif::fnv(&d, sizeof d, h); }
uint64_t Hi(uint64_t x, uint64_t h) { return verif::fnv(&x, sizeof x, h); }

// full fingerprint; idFree relabels original IDs by first appearance
uint64_t Finger(const Manifold& m, bool idFree) {
  uint64_t h = 1469598103934665603ull;
  h = Hi(uint64_t(m.Status()), h);
  // getters first, export afterwards: a getter that depends on whether the
  // export already happened would show up as a changed fingerprint later
  h = Hd(m.GetTolerance(), h);
  h = Hi(m.NumVert(), h); h = Hi(m.NumEdge(), h); h = Hi(m.NumTri(), h); h = Hi(m.NumProp(), h);
  Box b = m.BoundingBox();
  for (int k = 0; k < 3; ++k) { h = Hd(b.min[k], h); h = Hd(b.max[k], h); }
  if (!idFree) h = Hi(uint64_t(int64_t(m.OriginalID())), h);
  else h = Hi(m.OriginalID() >= 0 ? 1 : 0, h);
  MeshGL64 g = m.GetMeshGL64();
  h = Hi(g.numProp, h);
  h = H(g.vertProperties, h); h = H(g.triVerts, h); h = H(g.mergeFromVert, h); h = H(g.mergeToVert, h);
  h = H(g.runIndex, h); h = H(g.runTransform, h); h = H(g.runFlags, h); h = H(g.halfedgeTangent, h);
  h = Hd(g.tolerance, h);
  if (!idFree) { h = H(g.runOriginalID, h); h = H(g.faceID, h); }
  else {
    std::map<uint32_t, uint32_t> relabel;
    std::vector<uint32_t> ids;
    for (auto id : g.runOriginalID) { auto it = relabel.emplace(id, uint32_t(relabel.size())).first; ids.push_back(it->second); }
    h = H(ids, h);
    h = Hi(g.faceID.size(), h);
  }
  MeshGL f = m.GetMeshGL();
  h = H(f.vertProperties, h); h = H(f.triVerts, h); h = Hd(f.tolerance, h);
  h = Hd(m.GetTolerance(), h);
  return h;
}

uint64_t FingerCS(const CrossSection& c) {
  uint64_t h = 1469598103934665603ull;
  h = Hd(c.GetTolerance(), h);  // before materialisation, on purpose
  h = Hi(c.NumVert(), h); h = Hi(c.NumContour(), h); h = Hi(c.IsEmpty(), h);
  h = Hd(c.Area(), h);
  Rect r = c.Bounds();
  h = Hd(r.min.x, h); h = Hd(r.min.y, h); h = Hd(r.max.x, h); h = Hd(r.max.y, h);
  for (auto& p : c.ToPolygons()) { h = Hi(p.size(), h); for (auto& v : p) { h = Hd(v.x, h); h = Hd(v.y, h); } }
  h = Hd(c.GetTolerance(), h);
  return h;
}

struct World {
  gen::Pool pool;
  std::vector<bool> observed;
  std::vector<uint64_t> finger;
  std::vector<bool> taint;  // value depends on a triangulation (Warp, Refine, Smooth, Simplify, float re-import ...)
};

// runs the history; eager => observe every value at creation. Returns false on a violation.
bool RunManifold(Tape& t, Outcome& o, bool eager, std::vector<uint64_t>& finalIdFree, std::ostream& d, bool& sharedMutation) {
  World w;
  gen::ProgOptions opt;
  opt.forceSizes = false;
  opt.maxTris = 2500;
  opt.degenerate = false;
  opt.allowLevelSet = false;
  int steps = t.range(4, 24);
  sharedMutation = false;
  for (int s = 0; s < steps; ++s) {
    size_t before = w.pool.v.size();
    int special = before >= 2 ? t.range(0, 9) : 9;
    if (special <= 1) {
      // copy-assign over an existing slot / compound assignment on a slot that has live copies
      int dst = t.range(0, int(before) - 1), src = t.range(0, int(before) - 1);
      if (special == 0) {
        d << " ; v" << dst << " = v" << src;
        w.pool.v[dst] = w.pool.v[src];
        w.observed[dst] = w.observed[src];
        w.finger[dst] = w.finger[src];
        w.taint[dst] = w.taint[src];
      } else {
        int opk = t.range(0, 2);
        d << " ; copy=v" << dst << "; v" << dst << (opk == 0 ? " += v" : opk == 1 ? " -= v" : " ^= v") << src;
        gen::Val keep = w.pool.v[dst];  // a live copy that must not change
        bool keepObs = w.observed[dst];
        uint64_t keepF = w.finger[dst];
        if (opk == 0) w.pool.v[dst].m += w.pool.v[src].m; else if (opk == 1) w.pool.v[dst].m -= w.pool.v[src].m; else w.pool.v[dst].m ^= w.pool.v[src].m;
        w.pool.v[dst].est = (keep.est + w.pool.v[src].est) * 1.5 + 16;
        w.pool.v[dst].tangents = false;
        w.observed[dst] = false;
        w.pool.v.push_back(keep);
        w.observed.push_back(keepObs);
        w.finger.push_back(keepF);
        w.taint.push_back(w.taint[dst]);
        w.taint[dst] = w.taint[dst] || w.taint[src];
        if (keepObs) sharedMutation = true;
      }
    } else if (special == 2) {
      int src = t.range(0, int(before) - 1);
      d << " ; v" << before << "=move(copy(v" << src << "))";
      Manifold tmp = w.pool.v[src].m;
      gen::Val nv = w.pool.v[src];
      nv.m = std::move(tmp);
      w.pool.v.push_back(nv);
      w.observed.push_back(w.observed[src]);
      w.finger.push_back(w.finger[src]);
      w.taint.push_back(w.taint[src]);
    } else {
      gen::StepInfo si = gen::Step(t, w.pool, d, opt);
      static const char* meshDependent[] = {"Warp", "WarpBatch", "Refine", "RefineToLength", "RefineToTolerance", "SmoothOut", "Smooth", "CalcNormals+SmoothByNormals", "Simplify", "SetTolerance", "Reimport32", "CalculateNormals", "CalculateCurvature", "MinkowskiSum", "MinkowskiDifference", "Decompose"};
      bool tainted = false;
      for (auto* n : meshDependent) tainted |= si.op == n;
      for (int in : si.inputs) if (in < int(w.taint.size())) tainted |= w.taint[in];
      while (w.observed.size() < w.pool.v.size()) { w.observed.push_back(false); w.finger.push_back(0); w.taint.push_back(tainted); }
      // a derived value that shares storage with an observed input: copy / AsOriginal / SetProperties / transforms ...
      for (int in : si.inputs) if (in < int(before) && w.observed[in] && !si.topologyChanging) sharedMutation = true;
      if (si.op == "copy" && !si.inputs.empty() && w.observed[si.inputs[0]]) {
        // a copy is indistinguishable from its source
        uint64_t f = Finger(w.pool.v.back().m, false);
        if (f != w.finger[si.inputs[0]]) { o.fail("value:copy-differs", verif::fmt("copy of v%d does not have its source's fingerprint", si.inputs[0])); return false; }
        w.observed.back() = true;
        w.finger.back() = f;
      }
    }
    // observation schedule (the twin consumes the same tape bytes)
    for (size_t i = 0; i < w.pool.v.size(); ++i) {
      bool now = t.chance(56) || eager;
      if (!w.observed[i] && now) {
        w.finger[i] = Finger(w.pool.v[i].m, false);
        w.observed[i] = true;
        if (!eager) d << " ; observe(v" << i << ")";
      }
    }
    // every observed slot is unchanged
    for (size_t i = 0; i < w.pool.v.size(); ++i)
      if (w.observed[i] && Finger(w.pool.v[i].m, false) != w.finger[i]) {
        o.fail("value:changed", verif::fmt("v%zu changed after step %d (%s world)", i, s, eager ? "eager" : "lazy"));
        return false;
      }
  }
  // what the twin worlds are compared on: the solid (Status, emptiness, volume),
  // not the mesh - forcing an intermediate legitimately changes the evaluation
  // order and with it the triangulation (C03 promises the same solid, not bits)
  for (size_t vi = 0; vi < w.pool.v.size(); ++vi) {
    auto& v = w.pool.v[vi];
    if (w.taint[vi]) { finalIdFree.push_back(~0ull); finalIdFree.push_back(0); finalIdFree.push_back(0); continue; }
    finalIdFree.push_back(uint64_t(v.m.Status()));
    finalIdFree.push_back(v.m.IsEmpty());
    double vol = v.m.Volume();
    uint64_t bits;
    memcpy(&bits, &vol, sizeof bits);
    finalIdFree.push_back(bits);
  }
  return true;
}

void ModeManifold(Tape& t, Outcome& o) {
  std::vector<uint64_t> lazyF, eagerF;
  bool shared = false, shared2 = false;
  Tape t2(t.d, t.n);
  t2.pos = t.pos;
  if (!RunManifold(t, o, false, lazyF, o.desc, shared)) return;
  std::ostringstream sink;
  if (!RunManifold(t2, o, true, eagerF, sink, shared2)) return;
  if (lazyF.size() != eagerF.size()) { o.fail("value:twin-pool-size", "lazy and eager worlds built different pools"); return; }
  for (size_t i = 0; i + 2 < lazyF.size(); i += 3) {
    double a, b;
    memcpy(&a, &lazyF[i + 2], sizeof a);
    memcpy(&b, &eagerF[i + 2], sizeof b);
    if (lazyF[i] == ~0ull) continue;  // triangulation-dependent value: not comparable across evaluation orders
    // IsEmpty() is compared only for solids with volume: two evaluation orders of an expression that denotes the
    // empty set may legitimately leave a zero-volume skin in one of them (same solid, C03) and nothing in the other
    const bool emptinessDiffers = lazyF[i + 1] != eagerF[i + 1] && (std::abs(a) > 1e-9 || std::abs(b) > 1e-9);
    if (lazyF[i] != eagerF[i] || emptinessDiffers || std::abs(a - b) > 1e-7 * (1 + std::abs(a))) {
      o.fail("value:laziness-observable", verif::fmt("v%zu differs between the lazily and the eagerly observed run: status %d/%d volume %.12g/%.12g", i / 3, int(lazyF[i]), int(eagerF[i]), a, b));
      return;
    }
  }
  o.nontrivial = shared;
  o.cls(shared ? "observed-then-derived" : "no-shared-derivation");
}

void ModeCross(Tape& t, Outcome& o) {
  auto& d = o.desc;
  std::vector<CrossSection> pool;
  std::vector<bool> observed;
  std::vector<uint64_t> finger;
  int steps = t.range(3, 16);
  bool shared = false;
  for (int s = 0; s < steps; ++s) {
    int n = int(pool.size());
    int op = n == 0 ? 0 : t.range(0, 11);
    int ia = n ? t.range(0, n - 1) : 0, ib = n ? t.range(0, n - 1) : 0;
    d << (s ? " ; " : "") << "c" << n << "=";
    CrossSection r;
    bool derivesShared = false;
    switch (op) {
      default:
      case 0: { std::ostringstream tmp; auto p = gen::GenStar(t, 3, 9, 0.4, 1.2, tmp); vec2 off(t.real(-1, 1), t.real(-1, 1)); for (auto& v : p) v += off; r = CrossSection(p); d << "Star"; break; }
      case 1: r = CrossSection::Square(vec2(t.real(0.3, 2), t.real(0.3, 2)), t.flip()); d << "Square"; break;
      case 2: r = pool[ia].Boolean(pool[ib], OpType(t.range(0, 2))); d << "Bool(c" << ia << ",c" << ib << ")"; break;
      case 3: r = pool[ia].Translate(vec2(t.real(-1, 1), t.real(-1, 1))); d << "Translate(c" << ia << ")"; derivesShared = true; break;
      case 4: r = pool[ia].Rotate(t.real(0, 360)); d << "Rotate(c" << ia << ")"; derivesShared = true; break;
      case 5: r = pool[ia].Scale(vec2(t.real(0.3, 3), t.real(0.3, 3))); d << "Scale(c" << ia << ")"; derivesShared = true; break;
      case 6: r = pool[ia].Mirror(vec2(t.real(-1, 1), 0.2 + t.unit())); d << "Mirror(c" << ia << ")"; derivesShared = true; break;
      case 7: r = pool[ia].Offset(t.real(-0.2, 0.3), JoinType(t.range(0, 3)), 2.0, t.range(3, 16)); d << "Offset(c" << ia << ")"; break;
      case 8: r = t.flip() ? pool[ia].Simplify(t.real(0, 0.05)) : pool[ia].SetTolerance(t.real(0, 0.05)); d << "Simplify/SetTolerance(c" << ia << ")"; break;
      case 9: r = pool[ia]; d << "copy(c" << ia << ")"; derivesShared = true; break;
      case 10: { auto parts = pool[ia].Decompose(); r = parts.empty() ? CrossSection() : parts[0]; d << "Decompose(c" << ia << ")[0]"; break; }
      case 11: { pool[ia] = pool[ib]; observed[ia] = observed[ib]; finger[ia] = finger[ib]; r = pool[ia].Hull(); d << "c" << ia << "=c" << ib << "; Hull"; break; }
    }
    if (derivesShared && observed[ia]) shared = true;
    pool.push_back(r);
    observed.push_back(false);
    finger.push_back(0);
    if (op == 9 && observed[ia]) {
      uint64_t f = FingerCS(pool.back());
      if (f != finger[ia]) { o.fail("value:cs-copy-differs", "copy of a CrossSection does not have its source's fingerprint"); return; }
      observed.back() = true; finger.back() = f;
    }
    for (size_t i = 0; i < pool.size(); ++i)
      if (!observed[i] && t.chance(64)) { finger[i] = FingerCS(pool[i]); observed[i] = true; d << " ; observe(c" << i << ")"; }
    for (size_t i = 0; i < pool.size(); ++i)
      if (observed[i] && FingerCS(pool[i]) != finger[i]) { o.fail("value:cs-changed", verif::fmt("c%zu changed after step %d", i, s)); return; }
  }
  o.nontrivial = shared;
  o.cls(shared ? "cs-observed-then-derived" : "cs-no-shared-derivation");
}

void Body(Tape& t, Outcome& o) {
  if (t.range(0, 3) == 0) ModeCross(t, o);
  else ModeManifold(t, o);
  o.fingerprint = verif::fnv_str(o.desc.str());
}
}  // namespace

int main(int argc, char** argv) {
  verif::Config cfg{"C05", "values",
                    "histories of 4-24 steps over a growing pool of Manifolds (all 32 op kinds of the shared program generator, plus copy-assign over live slots, compound += -= ^= on slots with live copies, move) or 3-16 steps over CrossSections (Boolean, transforms, Offset, Simplify/SetTolerance, Decompose, Hull, copy, assign); values are first observed at generated, often late, times; oracle: byte fingerprint (getters, 64- and 32-bit export, every run/merge/tangent field) of every observed slot identical after every later step, copy == source, lazily vs eagerly observed twin run denote the same solids (Status, emptiness, volume); non-trivial = an observed value was later copied / transformed / assigned / compound-assigned (shared storage) and re-observed; distinct = history text",
                    10};
  return verif::run_main(argc, argv, cfg, Body);
}
