// C15: cancellation is all-or-nothing at every check point; Progress() is
// monotone, <= 1 and ends at 1.  Uses the MANIFOLD_VERIF probe in IsCancelled
// to count the K cancellation checks of an evaluation and to inject Cancel()
// at the k-th one.
#include "common/verif.h"
#include "execution_impl.h"
#include "gen/solids.h"
#include "oracle/canon.h"

using namespace manifold;
using verif::Outcome;
using verif::Tape;

namespace {

struct Trace {
  std::vector<std::pair<int, int>> pt;  // (done, total) at each check
};
Trace* g_trace = nullptr;
void Observe(ExecutionContext::Impl* ctx, long) {
  if (g_trace) g_trace->pt.push_back({ctx->donePhases.load(), ctx->totalPhases.load()});
}

struct Program {
  std::vector<Manifold> operands;          // evaluated before the context is involved
  std::function<Manifold(ExecutionContext&)> run;
  std::string kind;
  bool hasWork = true;
};

Program GenProgram(Tape& t, std::ostream& d) {
  Program p;
  int kind = t.range(0, 7);
  auto leaf = [&](int salt) {
    Manifold m = gen::GenPose(t, gen::GenPrimitive(t, d, 4), salt, d, 0.5);
    (void)m.NumTri();
    return m;
  };
  switch (kind) {
    default:
    case 0: case 1: {  // deferred CSG tree observed through Status()
      int n = t.range(2, 7);
      d << "Tree(";
      for (int i = 0; i < n; ++i) { if (i) d << " , "; p.operands.push_back(leaf(i)); }
      std::vector<int> ops;
      for (int i = 1; i < n; ++i) ops.push_back(t.range(0, 2));
      bool batch = t.chance(64);
      d << (batch ? ") batch" : ") chain");
      for (int o : ops) d << o;
      auto ops2 = ops;
      auto operands = &p.operands;
      p.run = [operands, ops2, batch](ExecutionContext& ctx) {
        Manifold r;
        if (batch) r = Manifold::BatchBoolean(*operands, OpType(ops2[0]));
        else { r = (*operands)[0]; for (size_t i = 1; i < operands->size(); ++i) r = r.Boolean((*operands)[i], OpType(ops2[i - 1])); }
        Manifold w = r.WithContext(ctx);
        (void)w.Status();
        return w;
      };
      p.kind = "tree";
      break;
    }
    case 2: {  // Refine family, with or without tangents
      Manifold m = leaf(0);
      bool smooth = t.flip();
      if (smooth) { m = m.SmoothOut(50, 0.4); (void)m.NumTri(); d << ".SmoothOut"; }
      int which = t.range(0, 2);
      double len = t.real(0.2, 0.6), tol = t.real(0.01, 0.1);
      int n = t.range(2, 4);
      d << (which == 0 ? ".Refine(" : which == 1 ? ".RefineToLength(" : ".RefineToTolerance(") << (which == 0 ? double(n) : which == 1 ? len : tol) << ")";
      p.operands = {m};
      auto operands = &p.operands;
      p.run = [operands, which, n, len, tol](ExecutionContext& ctx) {
        Manifold w = (*operands)[0].WithContext(ctx);
        return which == 0 ? w.Refine(n) : which == 1 ? w.RefineToLength(len) : w.RefineToTolerance(tol);
      };
      p.kind = "refine";
      p.hasWork = which != 2 || smooth;
      break;
    }
    case 3: {
      p.operands = {leaf(0)};
      d << ".Hull()";
      auto operands = &p.operands;
      p.run = [operands](ExecutionContext& ctx) { return (*operands)[0].WithContext(ctx).Hull(); };
      p.kind = "hull";
      break;
    }
    case 4: {
      Manifold a = gen::GenPose(t, gen::GenPrimitive(t, d, 1), 0, d, 0.3);
      Manifold b = Manifold::Tetrahedron().Scale(vec3(0.2));
      bool nonconvex = t.flip();
      if (nonconvex) a = Manifold::Extrude({{{-0.5, -0.5}, {0.5, -0.5}, {0.5, -0.1}, {-0.1, -0.1}, {-0.1, 0.5}, {-0.5, 0.5}}}, 0.5);
      (void)a.NumTri(); (void)b.NumTri();
      bool diff = t.flip();
      d << (nonconvex ? "LPrism" : "") << (diff ? ".MinkowskiDifference(tet)" : ".MinkowskiSum(tet)");
      p.operands = {a, b};
      auto operands = &p.operands;
      p.run = [operands, diff](ExecutionContext& ctx) { Manifold w = (*operands)[0].WithContext(ctx); return diff ? w.MinkowskiDifference((*operands)[1]) : w.MinkowskiSum((*operands)[1]); };
      p.kind = "minkowski";
      break;
    }
    case 5: {
      Manifold src = leaf(0);
      if (t.flip()) { src = src - leaf(1); (void)src.NumTri(); d << " (difference)"; }
      bool f32 = t.flip();
      d << (f32 ? " ctx.FromMeshGL(32)" : " ctx.FromMeshGL(64)");
      p.operands = {src};
      auto g64 = std::make_shared<MeshGL64>(src.GetMeshGL64());
      auto g32 = std::make_shared<MeshGL>(src.GetMeshGL());
      p.run = [g64, g32, f32](ExecutionContext& ctx) { return f32 ? ctx.FromMeshGL(*g32) : ctx.FromMeshGL(*g64); };
      p.kind = "frommesh";
      break;
    }
    case 6: {
      Manifold src = leaf(0);
      auto g64 = std::make_shared<MeshGL64>(src.GetMeshGL64());
      std::vector<Smoothness> sharp;
      int k = t.range(0, 2);
      for (int i = 0; i < k; ++i) sharp.push_back({size_t(t.range(0, int(g64->triVerts.size()) - 1)), t.unit()});
      d << " ctx.Smooth(mesh,sharp" << k << ")";
      p.operands = {src};
      p.run = [g64, sharp](ExecutionContext& ctx) { return ctx.Smooth(*g64, sharp); };
      p.kind = "smooth";
      break;
    }
    case 7: {
      double r = t.real(0.5, 0.9), edge = t.real(0.2, 0.5);
      d << " ctx.LevelSet(ball " << r << ", edge " << edge << ")";
      p.run = [r, edge](ExecutionContext& ctx) { return ctx.LevelSet([r](vec3 q) { return r - la::length(q); }, Box(vec3(-1.2), vec3(1.2)), edge); };
      p.kind = "levelset";
      break;
    }
  }
  return p;
}

void Body(Tape& t, Outcome& o) {
  auto& d = o.desc;
  Program p = GenProgram(t, d);
  std::vector<uint64_t> opF;
  for (auto& m : p.operands) opF.push_back(oracle::Fingerprint(m, false));
  auto& probe = gVerifCancelProbe;
  probe.observer = Observe;

  // ---- uncancelled baseline ----
  Trace tr;
  ExecutionContext ctx0;
  probe.target = ctx0.impl_.get();
  probe.checks = 0;
  probe.cancelAt = -1;
  g_trace = &tr;
  Manifold r0 = p.run(ctx0);
  g_trace = nullptr;
  probe.target = nullptr;
  const long K = probe.checks.load();
  if (r0.Status() != Manifold::Error::NoError) { o.fail("cancel:baseline-status", verif::fmt("uncancelled run has Status %d", int(r0.Status()))); return; }
  const uint64_t F0 = oracle::Fingerprint(r0, true);
  double last = 0;
  std::string minkDecrease;  // reported as F29 only after everything else has been checked
  for (size_t i = 0; i < tr.pt.size(); ++i) {
    double pr = tr.pt[i].second == 0 ? 1.0 : double(tr.pt[i].first) / tr.pt[i].second;
    if (tr.pt[i].second == 0) continue;  // nothing scheduled yet
    if (pr > 1.0) { o.fail("cancel:progress-above-1", verif::fmt("Progress %d/%d at check %zu", tr.pt[i].first, tr.pt[i].second, i)); return; }
    if (pr < last - 1e-15 && p.kind == "minkowski") {
      // known finding F29: Minkowski evaluates several internal batches through
      // the same context and every batch resets the counters
      minkDecrease = verif::fmt("Progress fell from %.6f to %.6f at check %zu of %ld", last, pr, i, K);
      last = pr;
      continue;
    }
    if (pr < last - 1e-15) { o.fail("cancel:progress-decreased", verif::fmt("Progress fell from %.6f to %.6f (%d/%d) at check %zu of %ld", last, pr, tr.pt[i].first, tr.pt[i].second, i, K)); return; }
    last = pr;
  }
  if (ctx0.Progress() != 1.0) { o.fail("cancel:progress-end", verif::fmt("Progress()=%.17g after an uncancelled completion", ctx0.Progress())); return; }
  if (ctx0.Cancelled()) { o.fail("cancel:spurious", "context reports Cancelled without a Cancel()"); return; }
  d << " ; K=" << K;
  // ---- inject at k ----
  std::vector<long> ks;
  if (K <= 40) for (long k = 0; k < K; ++k) ks.push_back(k);
  else {
    for (long k = 0; k < 8; ++k) { ks.push_back(k); ks.push_back(K - 1 - k); }
    for (int i = 0; i < 24; ++i) ks.push_back(8 + long(t.u32() % (K - 16)));
  }
  long cancelled = 0, completed = 0;
  for (long k : ks) {
    ExecutionContext ctx;
    probe.target = ctx.impl_.get();
    probe.checks = 0;
    probe.cancelAt = k;
    Manifold r = p.run(ctx);
    probe.target = nullptr;
    probe.cancelAt = -1;
    Manifold::Error st = r.Status();
    if (st == Manifold::Error::Cancelled) {
      ++cancelled;
      if (!r.IsEmpty() || r.NumTri() != 0 || r.NumVert() != 0 || !r.GetMeshGL64().triVerts.empty()) { o.fail("cancel:partial-result", verif::fmt("cancel at check %ld of %ld (%s): Cancelled result is not empty", k, K, p.kind.c_str())); return; }
      if (r.Status() != Manifold::Error::Cancelled) { o.fail("cancel:not-sticky", "Status changed on re-query"); return; }
      Manifold derived = r + Manifold::Cube();
      if (derived.Status() == Manifold::Error::NoError) { o.fail("cancel:not-propagated", verif::fmt("cancel at check %ld: (cancelled + cube) has Status NoError", k)); return; }
      if (r.Refine(2).Status() == Manifold::Error::NoError || r.Translate(vec3(1.0)).Status() == Manifold::Error::NoError) { o.fail("cancel:not-propagated", "an operation on a Cancelled Manifold returned NoError"); return; }
    } else if (st == Manifold::Error::NoError) {
      ++completed;
      if (oracle::Fingerprint(r, true) != F0) { o.fail("cancel:result-differs", verif::fmt("cancel at check %ld of %ld (%s): NoError result differs from the uncancelled one", k, K, p.kind.c_str())); return; }
    } else {
      o.fail("cancel:other-error", verif::fmt("cancel at check %ld of %ld (%s): Status %d", k, K, p.kind.c_str(), int(st)));
      return;
    }
    if (!ctx.Cancelled()) { o.fail("cancel:flag-lost", "Cancelled() is false after the injected Cancel"); return; }
    for (size_t i = 0; i < p.operands.size(); ++i)
      if (oracle::Fingerprint(p.operands[i], false) != opF[i]) { o.fail("cancel:operand-changed", verif::fmt("cancel at check %ld of %ld (%s): operand %zu changed", k, K, p.kind.c_str(), i)); return; }
    // a cancelled context short-circuits a later evaluation that has work
    if (p.hasWork && K > 0) {
      Manifold again = p.run(ctx);
      if (again.Status() != Manifold::Error::Cancelled) { o.fail("cancel:context-reuse", verif::fmt("(%s) evaluation through an already cancelled context returned Status %d", p.kind.c_str(), int(again.Status()))); return; }
    }
  }
  // rebuilding with a fresh context after all that gives the correct result
  {
    ExecutionContext fresh;
    Manifold r = p.run(fresh);
    if (r.Status() != Manifold::Error::NoError || oracle::Fingerprint(r, true) != F0) { o.fail("cancel:rebuild", "rebuilding from the operands with a fresh context does not give the uncancelled result"); return; }
  }
  if (!minkDecrease.empty() && o.ok) o.known("F29-minkowski-progress-resets", "cancel:progress-decreased", minkDecrease);
  o.counters["injections"] += long(ks.size());
  o.counters["cancelled_outcomes"] += cancelled;
  o.counters["completed_outcomes"] += completed;
  o.nontrivial = K >= 3 && cancelled > 0;
  o.cls(p.kind);
  o.fingerprint = verif::fnv_str(o.desc.str());
}
}  // namespace

int main(int argc, char** argv) {
  verif::Config cfg{"C15", "cancel",
                    "programs observed through an ExecutionContext: Status() of deferred trees (2-7 leaves, chain or batch), Refine/RefineToLength/RefineToTolerance (flat and smooth), Hull, MinkowskiSum/Difference, ctx.FromMeshGL (32/64), ctx.Smooth, ctx.LevelSet; an uncancelled run counts the K cancellation checks (MANIFOLD_VERIF probe) and records the progress counters at each; then Cancel() is injected at the k-th check for every k (K<=40) or the first/last 8 plus 24 generated k; oracle: result is Cancelled+empty+sticky+propagating or NoError with the uncancelled fingerprint (modulo mesh IDs), operands byte-identical, cancelled context short-circuits a re-run, fresh context reproduces the result, progress non-decreasing, <=1, ==1 at the end; non-trivial = K>=3 and some injection produced Cancelled; distinct = program text",
                    10};
  return verif::run_main(argc, argv, cfg, Body);
}
