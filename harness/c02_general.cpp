// C02 (a): Booleans / Split / plane cuts of epsilon-valid solids in general
// position, judged point-wise against the set formula evaluated on the
// *exported operands* with an independent solid-angle winding number, plus
// the inclusion-exclusion volume identities and operand-order independence.
#include "common/verif.h"
#include "gen/solids.h"
#include "oracle/wind3.h"

using namespace manifold;
using oracle::Soup;
using oracle::V3;
using verif::Outcome;
using verif::Tape;

namespace {

struct Sampler {
  std::vector<V3> pts;
  void uniform(Tape& t, const V3& lo, const V3& hi, int n) {
    for (int i = 0; i < n; ++i) {
      V3 e = hi - lo;
      pts.push_back(V3(lo.x - 0.05 * e.x + 1.1 * e.x * t.unit(), lo.y - 0.05 * e.y + 1.1 * e.y * t.unit(), lo.z - 0.05 * e.z + 1.1 * e.z * t.unit()));
    }
  }
  // points just off the surface of s: centroids and vertices pushed along the
  // triangle normal by +-1e-6*scale and +-1e-3*scale (slivers, missing corners)
  void nearSurface(const Soup& s, double scale, int maxTris) {
    if (s.t.empty()) return;
    size_t stride = std::max<size_t>(1, s.t.size() / maxTris);
    for (size_t i = 0; i < s.t.size(); i += stride) {
      V3 a = s.A(i), b = s.B(i), c = s.C(i);
      V3 n = oracle::cross(b - a, c - a);
      double l = oracle::norm(n);
      if (!(l > 0)) continue;
      n = n * (1 / l);
      V3 cen = (a + b + c) * (1.0 / 3);
      V3 nearV = a * 0.98 + cen * 0.02;  // just inside the corner at a
      for (double off : {1e-6, 1e-3}) {
        pts.push_back(cen + n * (off * scale));
        pts.push_back(cen - n * (off * scale));
        pts.push_back(nearV + n * (off * scale));
        pts.push_back(nearV - n * (off * scale));
      }
    }
  }
};

struct Judge {
  Outcome& o;
  double guard;
  long skipped = 0, used = 0;
  // classify p against result soup; expected is 0/1
  bool expect(const Soup& r, const V3& p, int expected, const char* what) {
    double w = r.t.empty() ? 0.0 : oracle::Winding(r, p);
    long k = std::lround(w);
    // the solid-angle sum is an integer only up to cancellation noise, which reaches 1e-6 for points as close
    // as 1e-6*scale to an edge; 1e-3 still separates every integer
    if (std::abs(w - k) > 1e-3 || k != expected) {
      o.fail(std::string("general:classify-") + what,
             verif::fmt("point (%.17g,%.17g,%.17g): result winding %.9g, set formula says %d", p.x, p.y, p.z, w, expected));
      return false;
    }
    return true;
  }
};

int ClassifyOperand(const Soup& s, const V3& p, double guard, Outcome& o) {
  int c = oracle::Classify(s, p, guard);
  // a generated operand that is not a valid solid at a guarded point is outside
  // the property's domain: discard the case (counted), never a violation here
  if (c == -2) { o.counters["discard_invalid_operand"]++; o.excluded = true; o.excluded_rule = "operand-not-0/1-winding (precondition)"; }
  return c;
}

void Body(Tape& t, Outcome& o) {
  auto& d = o.desc;
  int mode = t.range(0, 5);  // 0-2 boolean triple, 3 split, 4 plane, 5 batch
  int nOps = mode == 5 ? t.range(3, 4) : 2;
  if (mode == 4) nOps = 1;
  std::vector<Manifold> ms;
  std::vector<Soup> ss;
  double tol = 0, scale = 0;
  V3 lo(1e300, 1e300, 1e300), hi(-1e300, -1e300, -1e300);
  for (int i = 0; i < nOps; ++i) {
    d << (i ? " ; " : "") << char('A' + i) << "=";
    Manifold p = gen::GenPrimitive(t, d);
    // plane cuts also on bodies far from the origin (origin between plane and body)
    Manifold m = gen::GenPose(t, p, i, d, mode == 4 && t.flip() ? 6.0 : 0.6);
    if (m.Status() != Manifold::Error::NoError) { o.fail("general:operand-status", "generated operand has error status"); return; }
    ms.push_back(m);
    ss.push_back(oracle::MakeSoup(m));
    tol = std::max(tol, m.GetTolerance());
    const Soup& s = ss.back();
    lo = V3(std::min(lo.x, s.lo.x), std::min(lo.y, s.lo.y), std::min(lo.z, s.lo.z));
    hi = V3(std::max(hi.x, s.hi.x), std::max(hi.y, s.hi.y), std::max(hi.z, s.hi.z));
    scale = std::max(scale, s.scale());
  }
  std::vector<double> vol, area;
  for (auto& s : ss) { vol.push_back(oracle::Volume(s)); area.push_back(oracle::Area(s)); }
  double areaSum = 0;
  for (double a : area) areaSum += a;

  Sampler smp;
  smp.uniform(t, lo, hi, 60);
  // precondition screen: every operand must be a valid solid (winding 0/1)
  // at the uniform points and just off its own surface, else discard
  for (auto& s : ss) {
    Sampler own;
    own.nearSurface(s, scale, 24);
    for (auto* set : {&own.pts, &smp.pts})
      for (auto& p : *set) {
        double w = oracle::Winding(s, p);
        long k = std::lround(w);
        if (oracle::SurfaceDist(s, p) > 1e-7 * scale && (std::abs(w - k) > 1e-3 || (k != 0 && k != 1))) {
          o.counters["discard_invalid_operand"]++;
          o.exclude("operand-not-0/1-winding (precondition)");
          return;
        }
      }
  }
  d << " ; mode=" << mode;

  auto status_ok = [&](const Manifold& m, const char* what) {
    if (m.Status() != Manifold::Error::NoError) {
      o.fail("general:status", verif::fmt("%s has Status %d for valid operands", what, int(m.Status())));
      return false;
    }
    return true;
  };

  if (mode <= 3) {
    const Manifold &A = ms[0], &B = ms[1];
    Manifold add = A + B, sub = A - B, isect = A ^ B;
    Manifold add2 = B + A, isect2 = B ^ A;
    if (mode == 3) {
      auto pr = A.Split(B);
      isect = pr.first;
      sub = pr.second;
      d << "(Split)";
    }
    if (!status_ok(add, "A+B") || !status_ok(sub, "A-B") || !status_ok(isect, "A^B") || !status_ok(add2, "B+A") || !status_ok(isect2, "B^A")) return;
    tol = std::max({tol, add.GetTolerance(), sub.GetTolerance(), isect.GetTolerance()});
    double guard = 64 * tol + 1e-10 * scale;
    Soup sAdd = oracle::MakeSoup(add), sSub = oracle::MakeSoup(sub), sInt = oracle::MakeSoup(isect);
    Soup sAdd2 = oracle::MakeSoup(add2), sInt2 = oracle::MakeSoup(isect2);
    double vAdd = oracle::Volume(sAdd), vSub = oracle::Volume(sSub), vInt = oracle::Volume(sInt);
    double bound = 1e-9 * scale * scale * scale + 16 * tol * areaSum;
    o.nontrivial = vInt > 1e-6 && vInt < std::min(vol[0], vol[1]) - 1e-6;
    o.cls(o.nontrivial ? "surfaces-intersect" : (vInt <= 1e-6 ? "disjoint" : "nested"));
    if (std::abs(vAdd + vInt - vol[0] - vol[1]) > bound)
      o.fail("general:inclusion-exclusion", verif::fmt("V(A+B)+V(A^B)=%.15g but V(A)+V(B)=%.15g (bound %.3g)", vAdd + vInt, vol[0] + vol[1], bound));
    if (std::abs(vSub - (vol[0] - vInt)) > bound)
      o.fail("general:subtract-volume", verif::fmt("V(A-B)=%.15g but V(A)-V(A^B)=%.15g", vSub, vol[0] - vInt));
    if (std::abs(oracle::Volume(sAdd2) - vAdd) > bound) o.fail("general:union-commutes", "V(B+A)!=V(A+B)");
    if (std::abs(oracle::Volume(sInt2) - vInt) > bound) o.fail("general:intersect-commutes", "V(B^A)!=V(A^B)");
    if (!o.ok) return;
    smp.nearSurface(sAdd, scale, 12);
    smp.nearSurface(sInt, scale, 12);
    smp.nearSurface(sSub, scale, 12);
    Judge j{o, guard};
    for (auto& p : smp.pts) {
      int a = ClassifyOperand(ss[0], p, guard, o), b = ClassifyOperand(ss[1], p, guard, o);
      if (!o.ok || o.excluded) return;
      if (a < 0 || b < 0) { ++j.skipped; continue; }
      ++j.used;
      if (!j.expect(sAdd, p, a | b, "union")) return;
      if (!j.expect(sInt, p, a & b, mode == 3 ? "split-first" : "intersect")) return;
      if (!j.expect(sSub, p, a & !b, mode == 3 ? "split-second" : "subtract")) return;
      if (!j.expect(sAdd2, p, a | b, "union-swapped")) return;
      if (!j.expect(sInt2, p, a & b, "intersect-swapped")) return;
    }
    o.counters["points_used"] += j.used;
    o.counters["points_skipped_guard"] += j.skipped;
  } else if (mode == 4) {
    const Manifold& A = ms[0];
    vec3 n(t.real(-1, 1), t.real(-1, 1), 0.2 + t.unit());
    double len = la::length(n);
    V3 cen = (ss[0].lo + ss[0].hi) * 0.5;
    double dOff = (n.x * cen.x + n.y * cen.y + n.z * cen.z) / len + t.real(-0.3, 0.3);
    if (t.chance(64)) dOff = t.real(-8, 8);  // anywhere, including planes that miss the body on either side
    d << " plane n=(" << gen::num(n.x) << "," << gen::num(n.y) << "," << gen::num(n.z) << ") off=" << gen::num(dOff);
    auto pr = A.SplitByPlane(n, dOff);
    Manifold trim = A.TrimByPlane(n, dOff);
    if (!status_ok(pr.first, "SplitByPlane.first") || !status_ok(pr.second, "SplitByPlane.second") || !status_ok(trim, "TrimByPlane")) return;
    tol = std::max({tol, pr.first.GetTolerance(), pr.second.GetTolerance(), trim.GetTolerance()});
    double guard = 64 * tol + 1e-10 * scale;
    Soup s1 = oracle::MakeSoup(pr.first), s2 = oracle::MakeSoup(pr.second), s3 = oracle::MakeSoup(trim);
    double v1 = oracle::Volume(s1), v2 = oracle::Volume(s2), v3 = oracle::Volume(s3);
    double bound = 1e-9 * scale * scale * scale + 16 * tol * areaSum;
    o.nontrivial = v1 > 1e-6 && v2 > 1e-6;
    o.cls(o.nontrivial ? "plane-cuts" : "plane-misses");
    if (std::abs(v1 + v2 - vol[0]) > bound) o.fail("general:plane-volume", verif::fmt("halves %.15g+%.15g != %.15g", v1, v2, vol[0]));
    if (std::abs(v3 - v1) > bound) o.fail("general:trim-volume", "TrimByPlane differs from SplitByPlane.first");
    if (!o.ok) return;
    smp.nearSurface(s1, scale, 16);
    smp.nearSurface(s2, scale, 16);
    Judge j{o, guard};
    for (auto& p : smp.pts) {
      int a = ClassifyOperand(ss[0], p, guard, o);
      if (!o.ok || o.excluded) return;
      double sd = (n.x * p.x + n.y * p.y + n.z * p.z) / len - dOff;
      if (a < 0 || std::abs(sd) <= guard) { ++j.skipped; continue; }
      ++j.used;
      int pos = sd > 0;
      if (!j.expect(s1, p, a & pos, "plane-first")) return;
      if (!j.expect(s2, p, a & !pos, "plane-second")) return;
      if (!j.expect(s3, p, a & pos, "trim")) return;
    }
    o.counters["points_used"] += j.used;
    o.counters["points_skipped_guard"] += j.skipped;
  } else {
    OpType op = OpType(t.range(0, 2));
    d << " batch op=" << int(op);
    Manifold r = Manifold::BatchBoolean(ms, op);
    if (!status_ok(r, "BatchBoolean")) return;
    tol = std::max(tol, r.GetTolerance());
    double guard = 64 * tol + 1e-10 * scale;
    Soup sr = oracle::MakeSoup(r);
    smp.nearSurface(sr, scale, 30);
    o.nontrivial = !sr.t.empty() && r.NumVert() > 0;
    o.cls("batch");
    Judge j{o, guard};
    for (auto& p : smp.pts) {
      int acc = 0;
      bool skip = false;
      for (size_t i = 0; i < ss.size(); ++i) {
        int c = ClassifyOperand(ss[i], p, guard, o);
        if (!o.ok || o.excluded) return;
        if (c < 0) { skip = true; break; }
        if (i == 0) acc = c;
        else acc = op == OpType::Add ? (acc | c) : op == OpType::Intersect ? (acc & c) : (acc & !c);
      }
      if (skip) { ++j.skipped; continue; }
      ++j.used;
      if (!j.expect(sr, p, acc, "batch")) return;
    }
    o.counters["points_used"] += j.used;
    o.counters["points_skipped_guard"] += j.skipped;
  }
  o.fingerprint = verif::fnv_str(o.desc.str());
}
}  // namespace

int main(int argc, char** argv) {
  verif::Config cfg{"C02", "general",
                    "2 (batch: 3-4) primitives (cube/tet/sphere/cylinder/cone/twisted-scaled extrusion/with hole/partial revolve) in generic poses (rotation, translation, optional scale and mirror, per-operand salt so poses never align); all three ops both operand orders, Split, SplitByPlane/TrimByPlane, BatchBoolean; 60 uniform points + points 1e-6 and 1e-3 off the result surfaces; points within 64*tol+1e-10*scale of an operand surface are skipped; non-trivial = operand surfaces properly intersect (0<V(A^B)<min V) / plane leaves two parts; distinct = hash of case text",
                    12};
  return verif::run_main(argc, argv, cfg, Body);
}
