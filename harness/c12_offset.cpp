// C12: Offset / Hull / Decompose / Simplify of CrossSections.
#include <map>
#include <set>

#include "common/verif.h"
#include "gen/solids.h"
#include "manifold/cross_section.h"
#include "oracle/geom2.h"

using namespace manifold;
using verif::Outcome;
using verif::Tape;

namespace {

// regularized region with known feature size: star (reflex + convex corners),
// optionally with a concentric hole, optionally a second disjoint component
CrossSection GenRegion(Tape& t, std::ostream& d, bool& hasHole, int& components, bool& convex) {
  Polygons ps;
  int kind = t.range(0, 3);
  hasHole = false;
  components = 1;
  convex = kind == 0;
  if (kind == 0) {
    int w = t.range(1, 4), h = t.range(1, 4);
    ps.push_back({{0, 0}, {double(w), 0}, {double(w), double(h)}, {0, double(h)}});
    d << "rect" << w << "x" << h;
  } else if (kind == 1) {
    ps.push_back(gen::GenStar(t, 4, 10, 0.8, 2.0, d));
  } else if (kind == 2) {
    ps.push_back(gen::GenStar(t, 6, 10, 1.6, 2.2, d, 0.3));  // inscribed radius >= 1.6*cos(1.3*pi/6)=1.24
    auto hole = gen::GenStar(t, 3, 8, 0.4, 1.0, d);
    std::reverse(hole.begin(), hole.end());
    ps.push_back(hole);
    hasHole = true;
  } else {
    // L-shape union of two lattice rectangles + a far component
    ps.push_back({{0, 0}, {3, 0}, {3, 1}, {1, 1}, {1, 3}, {0, 3}});
    d << "L";
    if (t.flip()) { auto s = gen::GenStar(t, 3, 7, 0.5, 1.0, d); for (auto& v : s) v = v + vec2(6.5, 0.5); ps.push_back(s); components = 2; }
  }
  return CrossSection(ps);
}

int Inside(const Polygons& a, vec2 p) { return oracle::Winding2(a, p); }

void ModeOffset(Tape& t, Outcome& o) {
  auto& d = o.desc;
  bool hasHole, convexInput; int comps;
  CrossSection A = GenRegion(t, d, hasHole, comps, convexInput);
  Polygons pa = A.ToPolygons();
  JoinType jt = JoinType(t.range(0, 3));
  double mag = t.chance(64) ? std::pow(10.0, t.real(-3, -1)) : t.real(0.05, 1.5);
  double delta = t.flip() ? mag : -mag;
  double miter = t.chance(48) ? (t.flip() ? 1.0 : std::nan("")) : t.real(2, 6);
  int seg = t.range(3, 64);
  d << " Offset(" << gen::num(delta) << ",jt=" << int(jt) << ",miter=" << gen::num(miter) << ",seg=" << seg << ")";
  CrossSection R = A.Offset(delta, jt, miter, seg);
  Polygons pr = R.ToPolygons();
  double ml = (std::isfinite(miter) && miter >= 2) ? miter : 2.0;
  vec2 lo(1e300, 1e300), hi(-1e300, -1e300);
  for (auto& c : pa) for (auto& v : c) { lo = vec2(std::min(lo.x, v.x), std::min(lo.y, v.y)); hi = vec2(std::max(hi.x, v.x), std::max(hi.y, v.y)); }
  double scale = std::max({std::abs(lo.x), std::abs(lo.y), std::abs(hi.x), std::abs(hi.y)}) + mag * ml;
  double tol = std::max(A.GetTolerance(), R.GetTolerance());
  double guard = 64 * tol + 1e-9 * scale;
  double ad = std::abs(delta);
  double band = ad * (1 - std::cos(M_PI / seg)) + guard;
  lo = lo - vec2(ad * ml, ad * ml);
  hi = hi + vec2(ad * ml, ad * ml);
  // samples: uniform + near the +-delta level set of A's edges
  std::vector<vec2> pts;
  for (int i = 0; i < 120; ++i) pts.push_back(vec2(lo.x + (hi.x - lo.x) * t.unit(), lo.y + (hi.y - lo.y) * t.unit()));
  for (auto& c : pr)
    for (size_t i = 0; i < c.size(); i += std::max<size_t>(1, c.size() / 12)) {
      vec2 a = c[i], b = c[(i + 1) % c.size()], e = b - a;
      double l = std::sqrt(e.x * e.x + e.y * e.y);
      if (!(l > 0)) continue;
      vec2 n(-e.y / l, e.x / l), m = (a + b) * 0.5;
      for (double off : {2.5 * band, 1e-2 * ad + 2.5 * band}) { pts.push_back(m + n * off); pts.push_back(m - n * off); }
    }
  long used = 0, skipped = 0;
  bool sawIn = false, sawOut = false;
  for (auto& p : pts) {
    int inA = Inside(pa, p);
    if (inA != 0 && inA != 1) { o.exclude("input region not regular at sample"); return; }
    double ed = oracle::EdgeDist(pa, p);
    if (ed <= guard) { ++skipped; continue; }
    if (oracle::EdgeDist(pr, p) <= guard) { ++skipped; continue; }
    int inR = Inside(pr, p);
    if (inR != 0 && inR != 1) { o.fail("offset:result-winding", verif::fmt("winding %d at (%.17g,%.17g)", inR, p.x, p.y)); return; }
    if (jt == JoinType::Round) {
      // exact semantics up to the chordal band
      if (delta > 0) {
        double dist = inA ? 0.0 : ed;
        if (std::abs(dist - ad) <= band) { ++skipped; continue; }
        int want = dist < ad;
        ++used;
        if (inR != want) { o.fail("offset:round-dilate", verif::fmt("point (%.17g,%.17g): distance to region %.9g, delta %.9g, inside result=%d", p.x, p.y, dist, delta, inR)); return; }
        (want ? sawIn : sawOut) = true;
      } else {
        double distC = inA ? ed : 0.0;  // distance to the complement
        if (std::abs(distC - ad) <= band) { ++skipped; continue; }
        int want = distC > ad;
        ++used;
        if (inR != want) { o.fail("offset:round-erode", verif::fmt("point (%.17g,%.17g): distance to complement %.9g, |delta| %.9g, inside result=%d", p.x, p.y, distC, ad, inR)); return; }
        (want ? sawIn : sawOut) = true;
      }
    } else {
      // all joins: sandwiched between the round offset (inner) and the miter-limit reach (outer)
      ++used;
      if (delta > 0) {
        double dist = inA ? 0.0 : ed;
        // Bevel cuts convex corners along the chord, so only Square and Miter
        // (whose caps are tangent to / outside the delta-circle) contain the
        // full round dilation; for Bevel the region itself must be contained.
        const bool containsRound = jt != JoinType::Bevel;
        if ((containsRound ? dist < ad - band : dist == 0.0) && !inR) { o.fail("offset:contains-dilation", verif::fmt("point (%.17g,%.17g) at distance %.9g < delta %.9g from the region is outside the result (join %d)", p.x, p.y, dist, ad, int(jt))); return; }
        if (dist > ml * ad * (1 + 1e-9) + guard && inR) { o.fail("offset:miter-reach", verif::fmt("point (%.17g,%.17g) at distance %.9g > miterLimit*delta is inside the result", p.x, p.y, dist)); return; }
      } else {
        double distC = inA ? ed : 0.0;
        if (distC <= 0 && inR) { o.fail("offset:erode-outside-input", "inset result contains a point outside the input"); return; }
        if (distC > ml * ad * (1 + 1e-9) + guard && !inR) { o.fail("offset:erode-too-much", verif::fmt("point (%.17g,%.17g) farther than miterLimit*|delta| (%.9g) inside the region was removed", p.x, p.y, distC)); return; }
        // every join only removes more than the round inset at the region's
        // reflex corners, so any inset result lies inside the erosion
        // (except Bevel, whose chord passes inside the delta-circle of a reflex vertex)
        if (jt != JoinType::Bevel && distC < ad - band && inR) { o.fail("offset:erode-keeps-near-boundary", verif::fmt("point (%.17g,%.17g) only %.9g from the complement survives an inset by %.9g (join %d)", p.x, p.y, distC, ad, int(jt))); return; }
      }
    }
  }
  // output vertices within miter reach of the input region (delta>0)
  if (delta > 0)
    for (auto& c : pr)
      for (auto& v : c) {
        double dist = Inside(pa, v) == 1 ? 0.0 : oracle::EdgeDist(pa, v);
        if (dist > ml * ad * (1 + 1e-9) + guard) { o.fail("offset:vertex-reach", verif::fmt("output vertex (%.17g,%.17g) is %.9g from the input, limit %.9g", v.x, v.y, dist, ml * ad)); return; }
      }
  // slab: q on an input edge, pushed outward by t<|delta|: inside for delta>0
  if (delta > 0)
    for (auto& c : pa)
      for (size_t i = 0; i < c.size(); ++i) {
        vec2 a = c[i], b = c[(i + 1) % c.size()], e = b - a;
        double l = std::sqrt(e.x * e.x + e.y * e.y);
        if (!(l > 10 * guard)) continue;
        vec2 n(e.y / l, -e.x / l);  // right of direction = outward for CCW outer and CW hole
        for (double f : {0.25, 0.5, 0.75})
          for (double tt : {0.3 * ad, 0.9 * ad - guard}) {
            if (tt <= guard) continue;
            vec2 q = a + e * f + n * tt;
            if (oracle::EdgeDist(pr, q) <= guard) continue;
            if (Inside(pr, q) != 1 && jt == JoinType::Bevel && !convexInput) { o.known("F10-bevel-slab", "offset:edge-slab-bevel", "bevel chord at an acute vertex cuts into the slab of a non-adjacent edge"); continue; }
            if (Inside(pr, q) != 1) { o.fail("offset:edge-slab", verif::fmt("point (%.9g,%.9g) = %.9g off input edge %zu (%.6g,%.6g)-(%.6g,%.6g) (join %d, delta %.9g) is not inside the result", q.x, q.y, tt, i, a.x, a.y, b.x, b.y, int(jt), delta)); return; }
          }
      }
  // monotone in delta (same join): Offset(d1) subset of Offset(d2) for d1<d2
  {
    double d2 = delta + (0.05 + 0.3 * t.unit()) * ad + 4 * band;
    CrossSection R2 = A.Offset(d2, jt, miter, seg);
    Polygons p2 = R2.ToPolygons();
    double band2 = std::abs(d2) * (1 - std::cos(M_PI / seg)) + guard;
    for (auto& p : pts) {
      if (oracle::EdgeDist(pr, p) <= band + band2 || oracle::EdgeDist(p2, p) <= band + band2) continue;
      if (Inside(pr, p) == 1 && Inside(p2, p) != 1 && jt == JoinType::Bevel && !convexInput) {
        // same root cause as the slab clause (F10): the bevel chord at an acute
        // vertex moves with delta and can uncover points a smaller delta covered
        o.known("F10-bevel-slab", "offset:monotone-bevel", "bevel chord at an acute vertex breaks monotonicity in delta");
        break;
      }
      if (Inside(pr, p) == 1 && Inside(p2, p) != 1) { o.fail("offset:monotone", verif::fmt("point (%.17g,%.17g) inside Offset(%.9g) but outside Offset(%.9g)", p.x, p.y, delta, d2)); return; }
    }
  }
  // regular output: no proper crossing, winding 0/1 (done above at samples)
  {
    std::vector<std::pair<vec2, vec2>> edges;
    for (auto& c : pr) for (size_t i = 0; i < c.size(); ++i) edges.push_back({c[i], c[(i + 1) % c.size()]});
    if (edges.size() <= 300)
      for (size_t i = 0; i < edges.size(); ++i)
        for (size_t j = i + 1; j < edges.size(); ++j)
          if (oracle::ProperCross(edges[i].first, edges[i].second, edges[j].first, edges[j].second, 4 * tol + guard)) { o.fail("offset:self-crossing", "output edges cross"); return; }
  }
  o.counters["points_used"] += used;
  o.counters["points_skipped"] += skipped;
  o.nontrivial = used > 0 && mag >= 0.05;
  o.cls(std::string("join") + std::to_string(int(jt)));
  o.cls(delta > 0 ? "inflate" : "inset");
  if (hasHole) o.cls("hole");
  if (!(std::isfinite(miter) && miter >= 2)) o.cls("invalid-miter");
}

void ModeHull(Tape& t, Outcome& o) {
  auto& d = o.desc;
  int n = t.range(0, 40);
  bool lattice = t.flip();
  SimplePolygon pts;
  for (int i = 0; i < n; ++i) {
    if (i && t.chance(40)) pts.push_back(pts[t.range(0, i - 1)]);  // duplicate
    else pts.push_back(lattice ? vec2(t.range(0, 5), t.range(0, 5)) : vec2(t.real(-1, 1), t.real(-1, 1)));
  }
  d << "Hull(" << (lattice ? "lattice " : "real ");
  for (auto& p : pts) d << gen::num(p.x) << " " << gen::num(p.y) << ",";
  d << ")";
  int api = t.range(0, 2);
  CrossSection H = api == 0 ? CrossSection::Hull(pts) : api == 1 ? CrossSection::Hull(Polygons{pts, pts}) : CrossSection::Hull(std::vector<CrossSection>{CrossSection::Hull(pts), CrossSection::Hull(pts).Translate(vec2(0, 0))});
  Polygons hp = H.ToPolygons();
  std::vector<vec2> mine = oracle::Hull2(std::vector<vec2>(pts.begin(), pts.end()));
  double myArea = 0;
  for (size_t i = 0; i < mine.size(); ++i) myArea += oracle::Cross2(mine[i], mine[(i + 1) % mine.size()]) / 2;
  double scale = 1e-300;
  for (auto& p : pts) scale = std::max({scale, std::abs(p.x), std::abs(p.y)});
  o.nontrivial = n >= 5 && myArea > 0;
  o.cls(lattice ? "hull-lattice" : "hull-real");
  if (mine.size() < 3 || myArea <= 0) {
    if (!hp.empty() && std::abs(H.Area()) > 1e-12 * scale * scale) o.fail("hull:degenerate-not-empty", "points span no area but hull is not empty");
    return;
  }
  if (hp.size() != 1) { o.fail("hull:contours", verif::fmt("%zu contours", hp.size())); return; }
  auto& h = hp[0];
  std::set<std::pair<double, double>> in;
  for (auto& p : pts) in.insert({p.x, p.y});
  for (size_t i = 0; i < h.size(); ++i) {
    if (api != 2 && !in.count({h[i].x, h[i].y})) { o.fail("hull:vertex-not-input", verif::fmt("hull vertex (%.17g,%.17g) is not an input point", h[i].x, h[i].y)); return; }
    vec2 a = h[i], b = h[(i + 1) % h.size()], c = h[(i + 2) % h.size()];
    if (oracle::Cross2(b - a, c - b) < -1e-12 * scale * scale) { o.fail("hull:not-convex-ccw", verif::fmt("turn at vertex %zu is clockwise", i + 1)); return; }
  }
  for (auto& p : pts)
    for (size_t i = 0; i < h.size(); ++i) {
      vec2 a = h[i], b = h[(i + 1) % h.size()];
      double l = std::sqrt((b.x - a.x) * (b.x - a.x) + (b.y - a.y) * (b.y - a.y));
      if (l > 0 && oracle::Cross2(b - a, p - a) / l < -1e-12 * scale) { o.fail("hull:point-outside", verif::fmt("input point (%.17g,%.17g) is outside hull edge %zu", p.x, p.y, i)); return; }
    }
  if (std::abs(H.Area() - myArea) > 1e-12 * scale * scale + 1e-12 * myArea) { o.fail("hull:area", verif::fmt("hull area %.17g, own hull %.17g", H.Area(), myArea)); return; }
}

SimplePolygon Canon(const SimplePolygon& r) {
  size_t best = 0;
  for (size_t i = 1; i < r.size(); ++i)
    if (r[i].x < r[best].x || (r[i].x == r[best].x && r[i].y < r[best].y)) best = i;
  SimplePolygon c;
  for (size_t i = 0; i < r.size(); ++i) c.push_back(r[(best + i) % r.size()]);
  return c;
}
bool RingLess(const SimplePolygon& a, const SimplePolygon& b) {
  if (a.size() != b.size()) return a.size() < b.size();
  for (size_t i = 0; i < a.size(); ++i) {
    if (a[i].x != b[i].x) return a[i].x < b[i].x;
    if (a[i].y != b[i].y) return a[i].y < b[i].y;
  }
  return false;
}

void ModeDecompose(Tape& t, Outcome& o) {
  auto& d = o.desc;
  // several families on a grid: ring pairs (outer+hole), islands inside holes
  Polygons ps;
  int k = t.range(1, 5);
  d << "Decompose(families=" << k << ")";
  for (int i = 0; i < k; ++i) {
    vec2 c(7.0 * (i % 3), 7.0 * (i / 3));
    int depth = t.range(0, 2);
    if (t.chance(110)) {
      // integer-lattice family: hole / island vertices share their y (and x) with outline vertices that the
      // outline passes through monotonically - the tie cases of the containment ray cast
      int ox = 10 * (i % 3), oy = 10 * (i / 3);
      auto P = [&](int x, int y) { return vec2(ox + x, oy + y); };
      SimplePolygon outer = {P(0, 0), P(6, 0), P(7, 3), P(6, 6), P(0, 6), P(-1, 3)};
      if (t.flip()) outer = {P(0, 0), P(3, -1), P(6, 0), P(7, 2), P(7, 4), P(6, 6), P(3, 7), P(0, 6), P(-1, 4), P(-1, 2)};
      ps.push_back(outer);
      if (depth >= 1) {
        bool diamond = t.flip();
        SimplePolygon hole = diamond ? SimplePolygon{P(3, 1), P(1, 3), P(3, 5), P(5, 3)} : SimplePolygon{P(1, 2), P(1, 4), P(3, 5), P(5, 4), P(5, 2), P(3, 1)};  // clockwise
        ps.push_back(hole);
        // the island lies strictly inside its hole
        if (depth >= 2) ps.push_back(diamond ? SimplePolygon{P(3, 2), P(4, 3), P(3, 4), P(2, 3)} : SimplePolygon{P(2, 2), P(4, 2), P(4, 4), P(2, 4)});
      }
      o.cls("decompose-lattice-ties");
      continue;
    }
    double R = 3.0;
    for (int lvl = 0; lvl <= depth; ++lvl) {
      std::ostringstream sink;
      auto s = gen::GenStar(t, 6, 10, R * 0.8, R, sink, 0.3);
      for (auto& v : s) v = v + c;
      if (lvl % 2) std::reverse(s.begin(), s.end());
      ps.push_back(s);
      R = R * 0.8 * std::cos(1.3 * M_PI / 6) * 0.8;
    }
  }
  CrossSection A(ps);
  Polygons pa = A.ToPolygons();
  std::vector<CrossSection> parts = A.Decompose();
  std::vector<SimplePolygon> before, after;
  for (auto& r : pa) before.push_back(Canon(r));
  double areaSum = 0;
  for (auto& p : parts) {
    Polygons pp = p.ToPolygons();
    areaSum += p.Area();
    int positives = 0;
    for (size_t i = 0; i < pp.size(); ++i) {
      after.push_back(Canon(pp[i]));
      double a = oracle::Area({pp[i]});
      if (a > 0) { ++positives; if (i != 0) { o.fail("decompose:outline-not-first", ""); return; } }
      else {
        // the hole must lie inside this component's outline ...
        if (oracle::Winding2({pp[0]}, pp[i][0]) != 1 && oracle::EdgeDist({pp[0]}, pp[i][0]) > 1e-9) { o.fail("decompose:hole-outside-outline", ""); return; }
        // ... and the outline must be the smallest outer ring containing it
        for (auto& q : pa)
          if (oracle::Area({q}) > 0 && oracle::Area({q}) < oracle::Area({pp[0]}) && oracle::Winding2({q}, pp[i][0]) == 1) { o.fail("decompose:hole-wrong-parent", "a smaller outline also contains this hole"); return; }
      }
    }
    if (positives != 1) { o.fail("decompose:outline-count", verif::fmt("component has %d outlines", positives)); return; }
  }
  std::sort(before.begin(), before.end(), RingLess);
  std::sort(after.begin(), after.end(), RingLess);
  bool same = before.size() == after.size();
  for (size_t i = 0; same && i < before.size(); ++i) same = !RingLess(before[i], after[i]) && !RingLess(after[i], before[i]);
  if (!same) { o.fail("decompose:rings-changed", verif::fmt("%zu rings before, %zu after (or contents differ)", before.size(), after.size())); return; }
  if (std::abs(areaSum - A.Area()) > 1e-9 * std::abs(A.Area())) { o.fail("decompose:area", "component areas do not sum to the whole"); return; }
  size_t outlines = 0;
  for (auto& r : pa) outlines += oracle::Area({r}) > 0;
  if (parts.size() != outlines && !(pa.size() < 2)) { o.fail("decompose:component-count", verif::fmt("%zu components, %zu outlines", parts.size(), outlines)); return; }
  o.nontrivial = pa.size() >= 3;
  o.cls("decompose");
}

void ModeSimplify(Tape& t, Outcome& o) {
  auto& d = o.desc;
  // rings with near-collinear vertices: star + inserted near-midpoints
  Polygons ps;
  std::ostringstream sink;
  auto s = gen::GenStar(t, 4, 12, 1.0, 2.0, sink);
  SimplePolygon r;
  double noise = std::pow(10.0, t.real(-6, -1));
  for (size_t i = 0; i < s.size(); ++i) {
    r.push_back(s[i]);
    int extra = t.range(0, 3);
    for (int k = 1; k <= extra; ++k) {
      vec2 a = s[i], b = s[(i + 1) % s.size()], e = b - a;
      double l = std::sqrt(e.x * e.x + e.y * e.y);
      vec2 n(-e.y / l, e.x / l);
      r.push_back(a + e * (double(k) / (extra + 1)) + n * (noise * t.real(-1, 1)));
    }
  }
  ps.push_back(r);
  if (t.flip()) { auto h = gen::GenStar(t, 3, 6, 0.2, 0.5, sink); std::reverse(h.begin(), h.end()); ps.push_back(h); }
  CrossSection A(ps);
  Polygons pa = A.ToPolygons();
  double tol = t.chance(32) ? 0.0 : std::pow(10.0, t.real(-7, -0.5));
  bool viaSetTol = t.chance(64) && tol > A.GetTolerance();
  d << "Simplify(star" << s.size() << "+collinear, noise=" << gen::num(noise) << ", tol=" << gen::num(tol) << (viaSetTol ? ", via SetTolerance" : "") << ")";
  CrossSection S = viaSetTol ? A.SetTolerance(tol) : A.Simplify(tol);
  double effTol = tol == 0 ? A.GetTolerance() : tol;
  Polygons po = S.ToPolygons();
  size_t nin = 0, nout = 0;
  for (auto& c : pa) nin += c.size();
  for (auto& c : po) nout += c.size();
  for (auto& ring : po) {
    // in-order (cyclic) subsequence of exactly one input ring, bitwise
    bool found = false;
    for (auto& src : pa) {
      size_t n = src.size();
      for (size_t start = 0; start < n && !found; ++start) {
        if (src[start].x != ring[0].x || src[start].y != ring[0].y) continue;
        size_t j = 0;
        for (size_t k = 0; k < n && j < ring.size(); ++k) {
          vec2 v = src[(start + k) % n];
          if (v.x == ring[j].x && v.y == ring[j].y) ++j;
        }
        if (j == ring.size()) found = true;
      }
      if (found) break;
    }
    if (!found) { o.fail("simplify:not-subsequence", "an output ring is not an in-order subset of an input ring"); return; }
    if (ring.size() > 3)
      for (size_t i = 0; i < ring.size(); ++i) {
        vec2 P = ring[(i + ring.size() - 1) % ring.size()], N = ring[(i + 1) % ring.size()], pn = N - P;
        double l = std::sqrt(pn.x * pn.x + pn.y * pn.y);
        double dev = l > 0 ? std::abs(oracle::Cross2(ring[i] - P, pn)) / l : 0.0;
        if (dev < effTol * (1 - 1e-9)) { o.fail("simplify:vertex-too-close", verif::fmt("vertex %zu deviates %.9g < tolerance %.9g from the line through its neighbours", i, dev, effTol)); return; }
      }
  }
  if (S.GetTolerance() < A.GetTolerance()) { o.fail("simplify:tolerance-dropped", ""); return; }
  o.nontrivial = nout < nin;
  o.cls(nout < nin ? "simplify-removed" : "simplify-noop");
}

void Body(Tape& t, Outcome& o) {
  int mode = t.range(0, 9);
  if (mode <= 5) ModeOffset(t, o);
  else if (mode <= 7) ModeHull(t, o);
  else if (mode == 8) ModeDecompose(t, o);
  else ModeSimplify(t, o);
  o.fingerprint = verif::fnv_str(o.desc.str());
}
}  // namespace

int main(int argc, char** argv) {
  verif::Config cfg{"C12", "offset",
                    "(offset) regularized regions (rectangles, jittered stars with reflex corners, star with concentric hole, L-shape + far component) x delta of both signs (1e-3..1.5) x 4 join types x miter limits incl. <2 and NaN x 3..64 segments: Round judged exactly against own distance-to-region / distance-to-complement outside the chordal band |delta|(1-cos(pi/seg)); all joins: contain the edge slabs and the round dilation, stay within miterLimit*|delta|, monotone in delta, regular output; (hull) point sets with duplicates/collinear runs vs own monotone chain; (decompose) nested families: ring multiset preserved bitwise, one outline first, holes in smallest containing outline, areas sum; (simplify) in-order bitwise subsequence, no vertex of a >3 ring closer than tol to its neighbours' line; non-trivial = |delta|>=0.05 with points judged / >=5 points with area / >=3 rings / a vertex removed; distinct = case text hash",
                    12};
  return verif::run_main(argc, argv, cfg, Body);
}
