// Independent 3D geometry oracle: triangle soup, generalised winding number by
// summed signed solid angles (Van Oosterom & Strackee), brute-force
// point-triangle distance, signed volume, area.  No library code involved.
#pragma once
#include <algorithm>
#include <array>
#include <cmath>
#include <limits>
#include <vector>

#include "manifold/manifold.h"

namespace oracle {

struct V3 {
  double x = 0, y = 0, z = 0;
  V3() {}
  V3(double a, double b, double c) : x(a), y(b), z(c) {}
  V3 operator+(const V3& o) const { return {x + o.x, y + o.y, z + o.z}; }
  V3 operator-(const V3& o) const { return {x - o.x, y - o.y, z - o.z}; }
  V3 operator*(double s) const { return {x * s, y * s, z * s}; }
  double operator[](int i) const { return i == 0 ? x : i == 1 ? y : z; }
};
inline double dot(const V3& a, const V3& b) { return a.x * b.x + a.y * b.y + a.z * b.z; }
inline V3 cross(const V3& a, const V3& b) {
  return {a.y * b.z - a.z * b.y, a.z * b.x - a.x * b.z, a.x * b.y - a.y * b.x};
}
inline double norm(const V3& a) { return std::sqrt(dot(a, a)); }

struct Soup {
  std::vector<V3> v;
  std::vector<std::array<uint32_t, 3>> t;
  V3 lo{1e300, 1e300, 1e300}, hi{-1e300, -1e300, -1e300};
  double scale() const {  // largest absolute coordinate extent
    if (v.empty()) return 0;
    double s = 0;
    s = std::max({s, std::abs(lo.x), std::abs(lo.y), std::abs(lo.z), std::abs(hi.x), std::abs(hi.y), std::abs(hi.z)});
    return s;
  }
  V3 A(size_t i) const { return v[t[i][0]]; }
  V3 B(size_t i) const { return v[t[i][1]]; }
  V3 C(size_t i) const { return v[t[i][2]]; }
};

template <class Mesh>
Soup MakeSoup(const Mesh& g) {
  Soup s;
  size_t nv = g.numProp >= 3 ? g.vertProperties.size() / g.numProp : 0;
  s.v.resize(nv);
  for (size_t i = 0; i < nv; ++i) {
    s.v[i] = V3(g.vertProperties[i * g.numProp], g.vertProperties[i * g.numProp + 1], g.vertProperties[i * g.numProp + 2]);
    s.lo = V3(std::min(s.lo.x, s.v[i].x), std::min(s.lo.y, s.v[i].y), std::min(s.lo.z, s.v[i].z));
    s.hi = V3(std::max(s.hi.x, s.v[i].x), std::max(s.hi.y, s.v[i].y), std::max(s.hi.z, s.v[i].z));
  }
  s.t.resize(g.triVerts.size() / 3);
  for (size_t i = 0; i < s.t.size(); ++i)
    s.t[i] = {uint32_t(g.triVerts[3 * i]), uint32_t(g.triVerts[3 * i + 1]), uint32_t(g.triVerts[3 * i + 2])};
  return s;
}
inline Soup MakeSoup(const manifold::Manifold& m) { return MakeSoup(m.GetMeshGL64()); }

// generalised winding number (real valued; integer for a closed surface away
// from it)
inline double Winding(const Soup& s, const V3& p) {
  double total = 0;
  for (size_t i = 0; i < s.t.size(); ++i) {
    V3 a = s.A(i) - p, b = s.B(i) - p, c = s.C(i) - p;
    double la = norm(a), lb = norm(b), lc = norm(c);
    double num = dot(a, cross(b, c));
    double den = la * lb * lc + dot(a, b) * lc + dot(b, c) * la + dot(c, a) * lb;
    total += 2 * std::atan2(num, den);
  }
  return total / (4 * M_PI);
}

inline double PointSegDist2(const V3& p, const V3& a, const V3& b) {
  V3 ab = b - a;
  double l2 = dot(ab, ab);
  double t = l2 > 0 ? dot(p - a, ab) / l2 : 0;
  t = std::max(0.0, std::min(1.0, t));
  V3 d = p - (a + ab * t);
  return dot(d, d);
}

inline double PointTriDist2(const V3& p, const V3& a, const V3& b, const V3& c) {
  // project onto plane, test containment by barycentric signs, else edges
  V3 n = cross(b - a, c - a);
  double n2 = dot(n, n);
  double best = std::min({PointSegDist2(p, a, b), PointSegDist2(p, b, c), PointSegDist2(p, c, a)});
  if (n2 > 0) {
    double d = dot(p - a, n);
    V3 q = p - n * (d / n2);
    double s0 = dot(cross(b - a, q - a), n), s1 = dot(cross(c - b, q - b), n), s2 = dot(cross(a - c, q - c), n);
    if (s0 >= 0 && s1 >= 0 && s2 >= 0) best = std::min(best, d * d / n2);
  }
  return best;
}

inline double SurfaceDist(const Soup& s, const V3& p) {
  double best = std::numeric_limits<double>::infinity();
  for (size_t i = 0; i < s.t.size(); ++i) best = std::min(best, PointTriDist2(p, s.A(i), s.B(i), s.C(i)));
  return std::sqrt(best);
}

inline double Volume(const Soup& s) {
  // signed tetrahedra against the box centre for accuracy; Neumaier-free
  // long double accumulation
  if (s.v.empty()) return 0;
  V3 o = (s.lo + s.hi) * 0.5;
  long double vol = 0;
  for (size_t i = 0; i < s.t.size(); ++i)
    vol += (long double)dot(s.A(i) - o, cross(s.B(i) - o, s.C(i) - o));
  return double(vol / 6);
}

inline double Area(const Soup& s) {
  long double a = 0;
  for (size_t i = 0; i < s.t.size(); ++i) a += (long double)norm(cross(s.B(i) - s.A(i), s.C(i) - s.A(i)));
  return double(a / 2);
}

// classification with guard: returns 1 inside, 0 outside, -1 "too close to the
// surface, skip", -2 "winding is not 0/1 at a guarded point" (itself a finding
// for a valid solid)
inline int Classify(const Soup& s, const V3& p, double guard, double* wOut = nullptr) {
  if (s.t.empty()) return 0;
  if (SurfaceDist(s, p) <= guard) return -1;
  double w = Winding(s, p);
  if (wOut) *wOut = w;
  long r = std::lround(w);
  if (std::abs(w - r) > 1e-3) return -2;  // cancellation noise near edge lines reaches 1e-6; integers stay separated
  if (r == 0) return 0;
  if (r == 1) return 1;
  return -2;
}

}  // namespace oracle
