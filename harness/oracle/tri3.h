// Independent 3D primitives for C18: Moeller-Trumbore segment/triangle hits and
// brute-force triangle-triangle distance (from segment-segment and
// point-triangle distances; 0 when the triangles intersect).
#pragma once
#include "oracle/wind3.h"

namespace oracle {

struct SegHit {
  double t;       // parameter along the segment in [0,1]
  double u, v;    // barycentrics (w = 1-u-v)
  size_t tri;
};

// returns true when the segment o->e crosses triangle (a,b,c); parallel
// segments are reported as no hit
inline bool SegTri(const V3& o, const V3& e, const V3& a, const V3& b, const V3& c, SegHit& h) {
  V3 d = e - o, e1 = b - a, e2 = c - a;
  V3 p = cross(d, e2);
  double det = dot(e1, p);
  if (det == 0) return false;
  double inv = 1 / det;
  V3 s = o - a;
  h.u = dot(s, p) * inv;
  V3 q = cross(s, e1);
  h.v = dot(d, q) * inv;
  h.t = dot(e2, q) * inv;
  return h.u >= 0 && h.v >= 0 && h.u + h.v <= 1 && h.t >= 0 && h.t <= 1;
}

inline double SegSegDist2(const V3& p1, const V3& q1, const V3& p2, const V3& q2) {
  V3 d1 = q1 - p1, d2 = q2 - p2, r = p1 - p2;
  double a = dot(d1, d1), e = dot(d2, d2), f = dot(d2, r);
  double s, t;
  const double EPS = 1e-300;
  if (a <= EPS && e <= EPS) return dot(r, r);
  if (a <= EPS) { s = 0; t = std::max(0.0, std::min(1.0, f / e)); }
  else {
    double c = dot(d1, r);
    if (e <= EPS) { t = 0; s = std::max(0.0, std::min(1.0, -c / a)); }
    else {
      double b = dot(d1, d2), den = a * e - b * b;
      s = den > 0 ? std::max(0.0, std::min(1.0, (b * f - c * e) / den)) : 0.0;
      t = (b * s + f) / e;
      if (t < 0) { t = 0; s = std::max(0.0, std::min(1.0, -c / a)); }
      else if (t > 1) { t = 1; s = std::max(0.0, std::min(1.0, (b - c) / a)); }
    }
  }
  V3 c1 = p1 + d1 * s, c2 = p2 + d2 * t, dd = c1 - c2;
  return dot(dd, dd);
}

inline double TriTriDist2(const V3 a[3], const V3 b[3]) {
  // intersecting triangles: an edge of one crosses the other
  SegHit h;
  for (int i = 0; i < 3; ++i) {
    if (SegTri(a[i], a[(i + 1) % 3], b[0], b[1], b[2], h)) return 0;
    if (SegTri(b[i], b[(i + 1) % 3], a[0], a[1], a[2], h)) return 0;
  }
  double best = 1e300;
  for (int i = 0; i < 3; ++i)
    for (int j = 0; j < 3; ++j) best = std::min(best, SegSegDist2(a[i], a[(i + 1) % 3], b[j], b[(j + 1) % 3]));
  for (int i = 0; i < 3; ++i) {
    best = std::min(best, PointTriDist2(a[i], b[0], b[1], b[2]));
    best = std::min(best, PointTriDist2(b[i], a[0], a[1], a[2]));
  }
  return best;
}

}  // namespace oracle
