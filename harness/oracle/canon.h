// Byte fingerprints of a Manifold's observables (shared by C04, C06, C15).
// idFree relabels original IDs by first appearance and drops OriginalID():
// the mesh-ID counter is global, so two executions of one program
// legitimately differ in IDs.
#pragma once
#include <map>
#include <vector>

#include "common/verif.h"
#include "manifold/manifold.h"

namespace oracle {
template <class T>
inline uint64_t HV(const std::vector<T>& v, uint64_t h) { return verif::fnv_vec(v, h); }
inline uint64_t HD(double d, uint64_t h) { d += 0.0; return verif::fnv(&d, sizeof d, h); }
inline uint64_t HI(uint64_t x, uint64_t h) { return verif::fnv(&x, sizeof x, h); }

inline uint64_t Fingerprint(const manifold::Manifold& m, bool idFree) {
  using namespace manifold;
  uint64_t h = 1469598103934665603ull;
  h = HI(uint64_t(m.Status()), h);
  h = HD(m.GetTolerance(), h);
  h = HI(m.NumVert(), h); h = HI(m.NumEdge(), h); h = HI(m.NumTri(), h); h = HI(m.NumProp(), h);
  Box b = m.BoundingBox();
  for (int k = 0; k < 3; ++k) { h = HD(b.min[k], h); h = HD(b.max[k], h); }
  if (!idFree) h = HI(uint64_t(int64_t(m.OriginalID())), h);
  MeshGL64 g = m.GetMeshGL64();
  h = HI(g.numProp, h);
  h = HV(g.vertProperties, h); h = HV(g.triVerts, h); h = HV(g.mergeFromVert, h); h = HV(g.mergeToVert, h);
  h = HV(g.runIndex, h); h = HV(g.runTransform, h); h = HV(g.runFlags, h); h = HV(g.halfedgeTangent, h);
  h = HD(g.tolerance, h);
  if (!idFree) { h = HV(g.runOriginalID, h); h = HV(g.faceID, h); }
  else {
    std::map<uint32_t, uint32_t> relabel;
    std::vector<uint32_t> ids;
    for (auto id : g.runOriginalID) { auto it = relabel.emplace(id, uint32_t(relabel.size())).first; ids.push_back(it->second); }
    h = HV(ids, h);
    h = HV(g.faceID, h);
  }
  MeshGL f = m.GetMeshGL();
  h = HV(f.vertProperties, h); h = HV(f.triVerts, h); h = HD(f.tolerance, h);
  return h;
}
}  // namespace oracle
