// Independent 2D oracle: winding number by signed crossing count, point-segment
// distance, proper-crossing test with margin, shoelace area, monotone-chain hull.
#pragma once
#include <algorithm>
#include <cmath>
#include <vector>

#include "manifold/common.h"

namespace oracle {
using manifold::Polygons;
using manifold::SimplePolygon;
using manifold::vec2;

inline double Cross2(vec2 a, vec2 b) { return a.x * b.y - a.y * b.x; }

// winding number of the contour set about p (p not on any edge)
inline int Winding2(const Polygons& ps, vec2 p) {
  int w = 0;
  for (auto& c : ps) {
    size_t n = c.size();
    for (size_t i = 0; i < n; ++i) {
      vec2 a = c[i], b = c[(i + 1) % n];
      if (a.y <= p.y) {
        if (b.y > p.y && Cross2(b - a, p - a) > 0) ++w;
      } else {
        if (b.y <= p.y && Cross2(b - a, p - a) < 0) --w;
      }
    }
  }
  return w;
}

inline double PointSegDist(vec2 p, vec2 a, vec2 b) {
  vec2 ab = b - a;
  double l2 = ab.x * ab.x + ab.y * ab.y;
  double t = l2 > 0 ? ((p.x - a.x) * ab.x + (p.y - a.y) * ab.y) / l2 : 0;
  t = std::max(0.0, std::min(1.0, t));
  double dx = p.x - (a.x + t * ab.x), dy = p.y - (a.y + t * ab.y);
  return std::sqrt(dx * dx + dy * dy);
}

inline double EdgeDist(const Polygons& ps, vec2 p) {
  double best = 1e300;
  for (auto& c : ps)
    for (size_t i = 0; i < c.size(); ++i) best = std::min(best, PointSegDist(p, c[i], c[(i + 1) % c.size()]));
  return best;
}

inline double Area(const Polygons& ps) {
  long double a = 0;
  for (auto& c : ps)
    for (size_t i = 0; i < c.size(); ++i) {
      vec2 u = c[i], v = c[(i + 1) % c.size()];
      a += (long double)u.x * v.y - (long double)u.y * v.x;
    }
  return double(a / 2);
}

// segments ab and cd cross properly (interiors intersect transversally), with
// every endpoint farther than `margin` from the other segment
inline bool ProperCross(vec2 a, vec2 b, vec2 c, vec2 d, double margin) {
  double lab = std::sqrt((b.x - a.x) * (b.x - a.x) + (b.y - a.y) * (b.y - a.y));
  double lcd = std::sqrt((d.x - c.x) * (d.x - c.x) + (d.y - c.y) * (d.y - c.y));
  if (!(lab > 0) || !(lcd > 0)) return false;
  // signed distances of each endpoint from the other segment's *line*: a
  // proper crossing has both pairs on strictly opposite sides by > margin
  double s1 = Cross2(b - a, c - a) / lab, s2 = Cross2(b - a, d - a) / lab;
  double s3 = Cross2(d - c, a - c) / lcd, s4 = Cross2(d - c, b - c) / lcd;
  if (!((s1 > margin && s2 < -margin) || (s1 < -margin && s2 > margin))) return false;
  if (!((s3 > margin && s4 < -margin) || (s3 < -margin && s4 > margin))) return false;
  return true;
}

// strict convex hull (monotone chain), CCW, no collinear points
inline std::vector<vec2> Hull2(std::vector<vec2> p) {
  std::sort(p.begin(), p.end(), [](vec2 a, vec2 b) { return a.x < b.x || (a.x == b.x && a.y < b.y); });
  p.erase(std::unique(p.begin(), p.end(), [](vec2 a, vec2 b) { return a.x == b.x && a.y == b.y; }), p.end());
  size_t n = p.size(), k = 0;
  if (n < 3) return p;
  std::vector<vec2> h(2 * n);
  for (size_t i = 0; i < n; ++i) {
    while (k >= 2 && Cross2(h[k - 1] - h[k - 2], p[i] - h[k - 2]) <= 0) --k;
    h[k++] = p[i];
  }
  for (size_t i = n - 1, t = k + 1; i > 0; --i) {
    while (k >= t && Cross2(h[k - 1] - h[k - 2], p[i - 1] - h[k - 2]) <= 0) --k;
    h[k++] = p[i - 1];
  }
  h.resize(k - 1);
  return h;
}

}  // namespace oracle
