// C01 oracle: "closed oriented 2-manifold after applying merge vectors", written
// from the property statement; uses only the public MeshGLP fields.
#pragma once
#include <algorithm>
#include <cmath>
#include <string>
#include <unordered_map>
#include <vector>

#include "manifold/manifold.h"

namespace oracle {

struct TopoReport {
  bool ok = true;
  std::string sig, msg;
  size_t numVert = 0, numTri = 0, numEdge = 0;
  int genus = 0;
  size_t pinched = 0;  // statistic only
  void fail(const std::string& s, const std::string& m) {
    if (ok) { ok = false; sig = s; msg = m; }
  }
};

// resolves merge vectors to class representatives (union-find, since chains
// from->to->to' are legal in the format)
template <class Mesh>
std::vector<size_t> MergeClasses(const Mesh& g, size_t nv) {
  std::vector<size_t> parent(nv);
  for (size_t i = 0; i < nv; ++i) parent[i] = i;
  auto find = [&](size_t x) {
    while (parent[x] != x) { parent[x] = parent[parent[x]]; x = parent[x]; }
    return x;
  };
  for (size_t i = 0; i < g.mergeFromVert.size() && i < g.mergeToVert.size(); ++i) {
    size_t a = g.mergeFromVert[i], b = g.mergeToVert[i];
    if (a >= nv || b >= nv) continue;  // reported by caller
    a = find(a); b = find(b);
    if (a != b) parent[a] = b;
  }
  for (size_t i = 0; i < nv; ++i) parent[i] = find(i);
  return parent;
}

template <class Mesh>
TopoReport CheckTopology(const Mesh& g) {
  TopoReport r;
  char buf[256];
  if (g.numProp < 3) { r.fail("topo:numProp", "numProp<3"); return r; }
  if (g.vertProperties.size() % g.numProp != 0) { r.fail("topo:vertProperties-length", ""); return r; }
  if (g.triVerts.size() % 3 != 0) { r.fail("topo:triVerts-length", ""); return r; }
  const size_t nv = g.vertProperties.size() / g.numProp;
  const size_t nt = g.triVerts.size() / 3;
  for (size_t i = 0; i < g.vertProperties.size(); ++i)
    if (!std::isfinite(double(g.vertProperties[i]))) {
      snprintf(buf, sizeof buf, "vertProperties[%zu] not finite", i);
      r.fail("topo:nonfinite", buf); return r;
    }
  for (size_t i = 0; i < g.runTransform.size(); ++i)
    if (!std::isfinite(double(g.runTransform[i]))) { r.fail("topo:nonfinite", "runTransform"); return r; }
  for (size_t i = 0; i < g.halfedgeTangent.size(); ++i)
    if (!std::isfinite(double(g.halfedgeTangent[i]))) { r.fail("topo:nonfinite", "halfedgeTangent"); return r; }
  if (!std::isfinite(double(g.tolerance))) { r.fail("topo:nonfinite", "tolerance"); return r; }
  if (g.mergeFromVert.size() != g.mergeToVert.size()) { r.fail("topo:merge-length", ""); return r; }
  for (size_t i = 0; i < g.mergeFromVert.size(); ++i)
    if (g.mergeFromVert[i] >= nv || g.mergeToVert[i] >= nv) { r.fail("topo:merge-index-range", ""); return r; }
  for (size_t i = 0; i < g.triVerts.size(); ++i)
    if (g.triVerts[i] >= nv) {
      snprintf(buf, sizeof buf, "triVerts[%zu]=%llu >= %zu", i, (unsigned long long)g.triVerts[i], nv);
      r.fail("topo:index-range", buf); return r;
    }
  if (!g.halfedgeTangent.empty() && g.halfedgeTangent.size() != 4 * g.triVerts.size()) {
    r.fail("topo:tangent-length", ""); return r;
  }
  if (!g.faceID.empty() && g.faceID.size() != nt) { r.fail("topo:faceID-length", ""); return r; }

  std::vector<size_t> cls = MergeClasses(g, nv);
  std::vector<char> referenced(nv, 0);
  // directed-edge multiset over merge classes
  std::unordered_map<uint64_t, int> edges;
  edges.reserve(nt * 4);
  std::vector<char> classUsed(nv, 0);
  for (size_t t = 0; t < nt; ++t) {
    size_t v[3];
    for (int k = 0; k < 3; ++k) {
      referenced[g.triVerts[3 * t + k]] = 1;
      v[k] = cls[g.triVerts[3 * t + k]];
      classUsed[v[k]] = 1;
    }
    if (v[0] == v[1] || v[1] == v[2] || v[2] == v[0]) {
      snprintf(buf, sizeof buf, "triangle %zu repeats a (merged) vertex", t);
      r.fail("topo:degenerate-tri", buf); return r;
    }
    for (int k = 0; k < 3; ++k) {
      uint64_t key = (uint64_t(v[k]) << 32) | uint64_t(v[(k + 1) % 3]);
      if (++edges[key] > 1) {
        snprintf(buf, sizeof buf, "directed edge %zu->%zu occurs twice (tri %zu)", v[k], v[(k + 1) % 3], t);
        r.fail("topo:duplicate-edge", buf); return r;
      }
    }
  }
  for (auto& kv : edges) {
    uint64_t rev = (kv.first << 32) | (kv.first >> 32);
    auto it = edges.find(rev);
    if (it == edges.end()) {
      snprintf(buf, sizeof buf, "directed edge %llu->%llu has no opposite",
               (unsigned long long)(kv.first >> 32), (unsigned long long)(kv.first & 0xffffffffu));
      r.fail("topo:unmatched-edge", buf); return r;
    }
  }
  for (size_t i = 0; i < nv; ++i)
    if (!referenced[i]) {
      snprintf(buf, sizeof buf, "vertex %zu is not referenced by any triangle", i);
      r.fail("topo:unreferenced-vert", buf); return r;
    }
  size_t nclass = 0;
  for (size_t i = 0; i < nv; ++i) nclass += classUsed[i];
  r.numVert = nclass;
  r.numTri = nt;
  r.numEdge = edges.size() / 2;
  long chi = long(r.numVert) - long(r.numEdge) + long(r.numTri);
  // Genus() is documented for a single mesh as 1 - chi/2
  r.genus = int(1 - chi / 2);
  if (chi % 2 != 0) r.fail("topo:odd-euler", "V-E+T is odd");

  // run table sanity (part of "every index in range")
  if (!g.runIndex.empty()) {
    for (size_t i = 0; i < g.runIndex.size(); ++i)
      if (g.runIndex[i] > g.triVerts.size()) { r.fail("topo:runIndex-range", ""); return r; }
  }
  return r;
}

// Full C01 predicate on a Manifold: error => empty; else topology + getters agree.
inline TopoReport CheckManifold(const manifold::Manifold& m) {
  using manifold::Manifold;
  TopoReport r;
  char buf[256];
  Manifold::Error st = m.Status();
  if (st != Manifold::Error::NoError) {
    if (!m.IsEmpty() || m.NumVert() != 0 || m.NumTri() != 0) {
      r.fail("topo:error-not-empty", "Status!=NoError but mesh not empty");
    }
    manifold::MeshGL64 g = m.GetMeshGL64();
    if (!g.triVerts.empty() || !g.vertProperties.empty())
      r.fail("topo:error-not-empty", "Status!=NoError but export not empty");
    return r;
  }
  manifold::MeshGL64 g = m.GetMeshGL64();
  r = CheckTopology(g);
  if (!r.ok) return r;
  if (m.NumVert() != r.numVert) {
    snprintf(buf, sizeof buf, "NumVert()=%zu, export has %zu merged vertices", m.NumVert(), r.numVert);
    r.fail("topo:numvert-mismatch", buf);
  }
  if (m.NumTri() != r.numTri) r.fail("topo:numtri-mismatch", "");
  if (m.NumEdge() != r.numEdge) {
    snprintf(buf, sizeof buf, "NumEdge()=%zu, export has %zu", m.NumEdge(), r.numEdge);
    r.fail("topo:numedge-mismatch", buf);
  }
  if (m.Genus() != r.genus) {
    snprintf(buf, sizeof buf, "Genus()=%d, export gives %d", m.Genus(), r.genus);
    r.fail("topo:genus-mismatch", buf);
  }
  // NumPropVert() is not part of the statement (internal property rows may be
  // compacted on export), so it is not compared.
  if (m.NumProp() + 3 != size_t(g.numProp)) r.fail("topo:numprop-mismatch", "");
  if (m.IsEmpty() != (r.numTri == 0)) r.fail("topo:isempty-mismatch", "");
  if (!r.ok) return r;
  // 32-bit export must satisfy the same predicate - unless a coordinate or
  // property is beyond the range of float, where overflow to inf is inherent
  for (double x : g.vertProperties)
    if (std::abs(x) > 1e30) return r;  // (float tolerance = FLT_EPSILON * scale overflows a little earlier)
  for (double x : g.halfedgeTangent)
    if (std::abs(x) > 1e30) return r;
  for (double x : g.runTransform)
    if (std::abs(x) > 1e30) return r;
  if (std::abs(g.tolerance) > 1e30) return r;
  manifold::MeshGL g32 = m.GetMeshGL();
  TopoReport r32 = CheckTopology(g32);
  if (!r32.ok && getenv("VERIF_DEBUG")) { double mx = 0; for (double x : g.vertProperties) mx = std::max(mx, std::abs(x)); fprintf(stderr, "DEBUG32 max|64-bit value|=%g tol64=%g tol32=%g numProp=%d nv64=%zu nv32=%zu\n", mx, double(g.tolerance), double(g32.tolerance), int(g.numProp), g.vertProperties.size() / g.numProp, g32.vertProperties.size() / g32.numProp); }
  if (!r32.ok) { r32.sig += "(32bit)"; return r32; }
  if (r32.numVert != r.numVert || r32.numTri != r.numTri)
    r.fail("topo:32-64-mismatch", "MeshGL and MeshGL64 exports differ in counts");
  return r;
}

}  // namespace oracle
