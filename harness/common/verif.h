// Shared harness interface.  A *case* is a byte tape; each property supplies a
// structure-aware decoder + oracle ("body").  rapidcheck generates and shrinks
// tapes (runner.cpp), libFuzzer mutates them (fuzz_main.h), and a saved tape
// is replayed with neither.  An exhausted tape yields zeros, so every decoder
// maps "shorter / smaller tape" to "simpler case" and shrinking is meaningful.
#pragma once
#include <cmath>
#include <cstdint>
#include <cstdio>
#include <cstring>
#include <functional>
#include <map>
#include <sstream>
#include <string>
#include <vector>

namespace verif {

struct Tape {
  const uint8_t* d;
  size_t n;
  size_t pos = 0;
  Tape(const uint8_t* d_, size_t n_) : d(d_), n(n_) {}
  bool exhausted() const { return pos >= n; }
  uint32_t byte() { return pos < n ? d[pos++] : 0; }
  uint32_t u16() { uint32_t a = byte(); return a | (byte() << 8); }
  uint32_t u32() { uint32_t a = u16(); return a | (u16() << 16); }
  uint64_t u64() { uint64_t a = u32(); return a | (uint64_t(u32()) << 32); }
  // integer in [lo,hi] (inclusive); tape value 0 maps to lo.
  int range(int lo, int hi) {
    if (hi <= lo) return lo;
    uint32_t span = uint32_t(hi - lo) + 1u;
    uint32_t v = span <= 256 ? byte() : span <= 65536 ? u16() : u32();
    return lo + int(v % span);
  }
  bool flip() { return byte() & 1; }
  // true with probability ~num/256; tape value 0 => false.
  bool chance(int num) { return int(255 - byte()) < num; }
  double unit() {  // [0,1), 24 bits
    uint32_t v = byte() | (byte() << 8) | (byte() << 16);
    return v / 16777216.0;
  }
  double real(double lo, double hi) { return lo + (hi - lo) * unit(); }
  template <class T>
  const T& pick(const std::vector<T>& v) {
    return v[range(0, int(v.size()) - 1)];
  }
};

struct Outcome {
  bool ok = true;
  std::string sig;   // stable failure signature, e.g. "topo:unmatched-edge"
  std::string msg;   // details
  bool nontrivial = false;
  uint64_t fingerprint = 0;
  std::vector<std::string> classes;
  bool excluded = false;  // skipped by a known-finding exclusion rule
  std::string excluded_rule;
  std::ostringstream desc;  // human readable rendering of the decoded case
  std::map<std::string, long> counters;  // free-form additive counters

  void fail(const std::string& s, const std::string& m = "") {
    if (!ok) return;  // keep the first failure
    ok = false;
    sig = s;
    msg = m;
  }
  // a failure that falls in the trigger class of a finding listed in
  // known_findings.json: excluded from the search (counted), reported as
  // KNOWNFAIL by --replay so the driver can print KNOWN-FINDING for it
  bool knownFail = false;
  std::string knownId;
  void known(const std::string& findingId, const std::string& s, const std::string& m = "") {
    if (!ok || knownFail) return;
    knownFail = true; knownId = findingId; sig = s; msg = m;
    excluded = true; excluded_rule = "known-finding:" + findingId;
  }
  void cls(const std::string& c) { classes.push_back(c); }
  void exclude(const std::string& rule) {
    excluded = true;
    excluded_rule = rule;
  }
};

using Body = std::function<void(Tape&, Outcome&)>;

struct Config {
  const char* id;        // property id, e.g. "C02"
  const char* sub;       // sub-check name, e.g. "lattice"
  const char* rule;      // generation + non-triviality rule (evidence text)
  int tape_scale = 8;    // tape length grows to about max_size*tape_scale
};

// Optional exhaustive enumeration: calls report(outcome) for each case.
using Enumerator =
    std::function<void(const std::function<void(Outcome&)>& report, int level)>;

int run_main(int argc, char** argv, const Config& cfg, Body body,
             Enumerator enumerate = nullptr);

// ---- small utilities shared by harnesses ----
inline uint64_t fnv(const void* p, size_t n, uint64_t h = 1469598103934665603ull) {
  const uint8_t* b = static_cast<const uint8_t*>(p);
  for (size_t i = 0; i < n; ++i) { h ^= b[i]; h *= 1099511628211ull; }
  return h;
}
template <class T>
inline uint64_t fnv_vec(const std::vector<T>& v, uint64_t h = 1469598103934665603ull) {
  uint64_t n = v.size();
  h = fnv(&n, sizeof n, h);
  return v.empty() ? h : fnv(v.data(), v.size() * sizeof(T), h);
}
inline uint64_t fnv_str(const std::string& s, uint64_t h = 1469598103934665603ull) {
  return fnv(s.data(), s.size(), h);
}
inline std::string fmt(const char* f, ...) __attribute__((format(printf, 1, 2)));
}  // namespace verif

#include <cstdarg>
inline std::string verif::fmt(const char* f, ...) {
  char buf[1024];
  va_list ap;
  va_start(ap, f);
  vsnprintf(buf, sizeof buf, f, ap);
  va_end(ap);
  return buf;
}
