// The only TU that includes rapidcheck.  Modes:
//   --search --n N --seed S --size Z --out part.json --faildir DIR [--max-seconds T]
//   --replay FILE                      (no generator library involved)
//   --exhaustive --level L --out part.json --faildir DIR
#include <rapidcheck.h>
#include <fcntl.h>
#include <signal.h>
#include <unistd.h>

#include <chrono>
#include <fstream>
#include <iostream>
#include <set>

#include "common/verif.h"

extern "C" void __sanitizer_set_death_callback(void (*)(void)) __attribute__((weak));

namespace verif {
namespace {

Outcome* g_current = nullptr;
void OnSanitizerDeath() {
  if (g_current) {
    fprintf(stdout, "CASE(at sanitizer abort) %s\n", g_current->desc.str().c_str());
    fflush(stdout);
  }
}

std::string jstr(const std::string& s) {
  std::string o = "\"";
  for (unsigned char c : s) {
    switch (c) {
      case '"': o += "\\\""; break;
      case '\\': o += "\\\\"; break;
      case '\n': o += "\\n"; break;
      case '\t': o += "\\t"; break;
      case '\r': o += "\\r"; break;
      default:
        if (c < 0x20) { char b[8]; snprintf(b, sizeof b, "\\u%04x", c); o += b; }
        else o += char(c);
    }
  }
  return o + "\"";
}

struct Stats {
  long evaluations = 0, nontrivial = 0, excluded = 0, skipped_deadline = 0;
  std::set<uint64_t> distinct;
  std::map<std::string, long> classes, excluded_rules, counters;
  std::vector<std::string> samples;
  long sample_seen = 0;
  // failure
  bool failed = false;
  std::vector<uint8_t> fail_tape;
  std::string fail_sig, fail_msg, fail_desc;

  void absorb(const Outcome& o) {
    ++evaluations;
    for (auto& kv : o.counters) counters[kv.first] += kv.second;
    if (o.excluded) { ++excluded; ++excluded_rules[o.excluded_rule]; return; }
    for (auto& c : o.classes) ++classes[c];
    if (o.nontrivial) {
      ++nontrivial;
      bool fresh = distinct.insert(o.fingerprint).second;
      if (fresh) {
        ++sample_seen;
        // keep first 2 and a deterministic spread of later ones (max 5)
        if (samples.size() < 2) samples.push_back(o.desc.str());
        else if (samples.size() < 5 && (sample_seen & (sample_seen - 1)) == 0)
          samples.push_back(o.desc.str());
      }
    }
  }
};

void write_part(const std::string& path, const Config& cfg, const Stats& st,
                const std::string& mode, long seed, double wall, int size,
                const std::string& failfile) {
  std::ofstream f(path);
  f << "{\n \"id\": " << jstr(cfg.id) << ", \"sub\": " << jstr(cfg.sub)
    << ", \"mode\": " << jstr(mode) << ", \"seed\": " << seed
    << ", \"size\": " << size << ", \"wall_s\": " << wall << ",\n";
  f << " \"rule\": " << jstr(cfg.rule) << ",\n";
  f << " \"evaluations\": " << st.evaluations << ", \"nontrivial\": " << st.nontrivial
    << ", \"excluded\": " << st.excluded
    << ", \"skipped_deadline\": " << st.skipped_deadline << ",\n";
  f << " \"distinct\": [";
  bool first = true;
  for (auto h : st.distinct) { f << (first ? "" : ",") << "\"" << std::hex << h << std::dec << "\""; first = false; }
  f << "],\n \"classes\": {";
  first = true;
  for (auto& kv : st.classes) { f << (first ? "" : ",") << jstr(kv.first) << ":" << kv.second; first = false; }
  f << "},\n \"counters\": {";
  first = true;
  for (auto& kv : st.counters) { f << (first ? "" : ",") << jstr(kv.first) << ":" << kv.second; first = false; }
  f << "},\n \"excluded_rules\": {";
  first = true;
  for (auto& kv : st.excluded_rules) { f << (first ? "" : ",") << jstr(kv.first) << ":" << kv.second; first = false; }
  f << "},\n \"samples\": [";
  first = true;
  for (auto& s : st.samples) { f << (first ? "" : ",") << jstr(s); first = false; }
  f << "],\n \"failed\": " << (st.failed ? "true" : "false");
  if (st.failed)
    f << ", \"fail_sig\": " << jstr(st.fail_sig) << ", \"fail_msg\": " << jstr(st.fail_msg)
      << ", \"fail_desc\": " << jstr(st.fail_desc) << ", \"fail_tape\": " << jstr(failfile);
  f << "\n}\n";
}

// per-case watchdog: a case that runs longer than this is reported as a hang
// (exit code 5, the pending tape stays on disk); a hang is "inconclusive",
// never a violation by itself
int g_case_timeout = 300;
void OnAlarm(int) {
  static const char msg[] = "HANG: case exceeded the per-case time limit\nCASE(at hang) ";
  ssize_t w = write(1, msg, sizeof msg - 1);
  if (g_current) { std::string dsc = g_current->desc.str(); w = write(1, dsc.data(), dsc.size()); }
  w = write(1, "\n", 1);
  (void)w;
  _exit(5);
}

void run_body(const Body& body, const uint8_t* d, size_t n, Outcome& o) {
  Tape t(d, n);
  g_current = &o;
  alarm(g_case_timeout);
  try {
    body(t, o);
  } catch (const std::exception& e) {
    o.fail("exception", std::string("escaping exception: ") + e.what());
  } catch (...) {
    o.fail("exception", "escaping non-std exception");
  }
  alarm(0);
  g_current = nullptr;  // the outcome may be destroyed before a late sanitizer exit report
}

std::string save_tape(const std::string& dir, const Config& cfg,
                      const std::vector<uint8_t>& tape, const std::string& sig,
                      const std::string& msg, const std::string& desc) {
  uint64_t h = fnv_vec(tape);
  std::string base = dir + "/" + cfg.id + "-" + cfg.sub + "-" + fmt("%016llx", (unsigned long long)h);
  { std::ofstream f(base + ".tape", std::ios::binary); f.write((const char*)tape.data(), tape.size()); }
  { std::ofstream f(base + ".txt"); f << "sig: " << sig << "\nmsg: " << msg << "\ncase:\n" << desc << "\n"; }
  return base + ".tape";
}

}  // namespace

int run_main(int argc, char** argv, const Config& cfg, Body body, Enumerator enumerate) {
  std::string mode, out, faildir = ".", replay;
  long n = 100, seed = 1;
  int size = 100, level = 0;
  double max_seconds = 0, shrink_seconds = 90, shrink_start = 0;
  for (int i = 1; i < argc; ++i) {
    std::string a = argv[i];
    auto next = [&]() { return std::string(i + 1 < argc ? argv[++i] : ""); };
    if (a == "--search") mode = "search";
    else if (a == "--exhaustive") mode = "exhaustive";
    else if (a == "--replay") { mode = "replay"; replay = next(); }
    else if (a == "--n") n = atol(next().c_str());
    else if (a == "--seed") seed = atol(next().c_str());
    else if (a == "--size") size = atoi(next().c_str());
    else if (a == "--level") level = atoi(next().c_str());
    else if (a == "--out") out = next();
    else if (a == "--faildir") faildir = next();
    else if (a == "--max-seconds") max_seconds = atof(next().c_str());
    else if (a == "--shrink-seconds") shrink_seconds = atof(next().c_str());
  }
  if (__sanitizer_set_death_callback) __sanitizer_set_death_callback(OnSanitizerDeath);
  signal(SIGALRM, OnAlarm);
  if (getenv("VERIF_CASE_TIMEOUT")) g_case_timeout = atoi(getenv("VERIF_CASE_TIMEOUT"));
  auto t0 = std::chrono::steady_clock::now();
  auto elapsed = [&]() { return std::chrono::duration<double>(std::chrono::steady_clock::now() - t0).count(); };

  if (mode == "replay") {
    std::ifstream f(replay, std::ios::binary);
    if (!f) { fprintf(stderr, "cannot open %s\n", replay.c_str()); return 3; }
    std::vector<uint8_t> tape((std::istreambuf_iterator<char>(f)), std::istreambuf_iterator<char>());
    Outcome o;
    run_body(body, tape.data(), tape.size(), o);
    printf("CASE %s\n", o.desc.str().c_str());
    if (o.knownFail) { printf("KNOWNFAIL finding=%s sig=%s msg=%s\n", o.knownId.c_str(), o.sig.c_str(), o.msg.c_str()); return 4; }
    if (o.excluded) { printf("EXCLUDED rule=%s\n", o.excluded_rule.c_str()); return 0; }
    if (!o.ok) { printf("FAIL sig=%s msg=%s\n", o.sig.c_str(), o.msg.c_str()); return 1; }
    printf("PASS nontrivial=%d\n", int(o.nontrivial));
    return 0;
  }

  Stats st;
  std::string failfile;
  if (mode == "exhaustive") {
    if (!enumerate) { fprintf(stderr, "no enumerator\n"); return 3; }
    enumerate([&](Outcome& o) {
      st.absorb(o);
      if (!o.ok && !st.failed) {
        st.failed = true; st.fail_sig = o.sig; st.fail_msg = o.msg; st.fail_desc = o.desc.str();
      }
    }, level);
    if (st.failed) {
      // exhaustive cases are identified by their description (no tape)
      std::string base = faildir + "/" + cfg.id + "-" + cfg.sub + "-enum-" + fmt("%016llx", (unsigned long long)fnv_str(st.fail_desc));
      std::ofstream f(base + ".txt"); f << "sig: " << st.fail_sig << "\nmsg: " << st.fail_msg << "\ncase:\n" << st.fail_desc << "\n";
      failfile = base + ".txt";
    }
    if (!out.empty()) write_part(out, cfg, st, mode, seed, elapsed(), level, failfile);
    return st.failed ? 1 : 0;
  }

  if (mode != "search") { fprintf(stderr, "usage: --search|--replay F|--exhaustive\n"); return 3; }

  // pending tape: written before every body call so a sanitizer abort (which
  // bypasses shrinking and atexit) still leaves the failing input on disk.
  std::string pending = faildir + "/" + cfg.id + "-" + cfg.sub + "-pending-" + std::to_string(getpid()) + ".tape";
  int pfd = open(pending.c_str(), O_CREAT | O_WRONLY | O_TRUNC, 0644);

  std::string params = "seed=" + std::to_string(seed) + " max_success=" + std::to_string(n) +
                       " max_size=" + std::to_string(size) + " max_discard_ratio=1000";
  setenv("RC_PARAMS", params.c_str(), 1);
  bool in_shrink = false;
  const bool trace = getenv("VERIF_TRACE") != nullptr;
  const int scale = cfg.tape_scale;
  bool ok = rc::check(std::string(cfg.id) + "/" + cfg.sub, [&]() {
    auto tape = *rc::gen::scale(double(scale), rc::gen::container<std::vector<uint8_t>>(rc::gen::arbitrary<uint8_t>()));
    if (!in_shrink && max_seconds > 0 && elapsed() > max_seconds) { ++st.skipped_deadline; return; }
    // bounded shrinking: past the budget every remaining candidate "passes"
    // without being run, so rapidcheck settles on the best failing tape so far
    if (in_shrink && elapsed() - shrink_start > shrink_seconds) return;
    if (pfd >= 0) {
      if (ftruncate(pfd, 0) == 0) { ssize_t w = pwrite(pfd, tape.data(), tape.size(), 0); (void)w; }
    }
    Outcome o;
    double tb = elapsed();
    run_body(body, tape.data(), tape.size(), o);
    if (trace) fprintf(stderr, "TRACE %.3fs %s\n", elapsed() - tb, o.desc.str().substr(0, 300).c_str());
    if (!in_shrink) st.absorb(o);
    if (!o.ok && !o.excluded && (!in_shrink || o.sig == st.fail_sig)) {
      if (!in_shrink) shrink_start = elapsed();
      in_shrink = true;  // every later call is a shrink candidate
      st.failed = true; st.fail_tape = tape; st.fail_sig = o.sig; st.fail_msg = o.msg; st.fail_desc = o.desc.str();
      RC_FAIL(o.sig + ": " + o.msg);
    }
  });
  (void)ok;
  if (pfd >= 0) { close(pfd); unlink(pending.c_str()); }
  if (st.failed) failfile = save_tape(faildir, cfg, st.fail_tape, st.fail_sig, st.fail_msg, st.fail_desc);
  if (!out.empty()) write_part(out, cfg, st, mode, seed, elapsed(), size, failfile);
  if (st.failed) { printf("FAIL tape=%s sig=%s msg=%s\n", failfile.c_str(), st.fail_sig.c_str(), st.fail_msg.c_str()); return 1; }
  return 0;
}

}  // namespace verif
