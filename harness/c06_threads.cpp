// C06: shared objects may be used from many threads: no data race, same answers.
// A generated set of shared lazy Manifolds / CrossSections / an ExecutionContext
// is used by 2-8 real threads, each running a generated program of const
// queries, copies, assignments and derived expressions.  The build is
// ThreadSanitizer-instrumented with the serial backend, so every lock and
// atomic of the library is visible to it: any report aborts the process
// (exit 79) and is a violation.  Every operation's result is recorded as a
// byte fingerprint and compared with two serial executions of the same
// programs on fresh copies of the same shared objects (thread after thread,
// and round-robin); when the two serial orders disagree the program is
// order-sensitive and is excluded (counted), otherwise the concurrent results
// must equal them.  Threads start at a barrier and insert generated spin
// delays so that the first (lazily evaluating) calls collide.
#include <atomic>
#include <chrono>
#include <condition_variable>
#include <mutex>
#include <thread>

#include "common/verif.h"
#include "gen/solids.h"
#include "manifold/cross_section.h"
#include "manifold/manifold.h"
#include "oracle/canon.h"

using namespace manifold;
using verif::Outcome;
using verif::Tape;

namespace {

struct Shared {
  std::vector<Manifold> s;
  std::vector<CrossSection> c;
  ExecutionContext ctx;
  Manifold ctxM;  // a lazy expression with ctx attached
};

Manifold Prim(Tape& t, std::ostream& d) {
  int k = t.range(0, 4);
  Manifold m;
  switch (k) {
    case 0: m = Manifold::Cube(vec3(t.real(0.5, 1.5), t.real(0.5, 1.5), t.real(0.5, 1.5)), t.flip()); d << "Cube"; break;
    case 1: m = Manifold::Sphere(t.real(0.4, 1.0), 4 * t.range(1, 3)); d << "Sphere"; break;
    case 2: m = Manifold::Cylinder(t.real(0.5, 1.5), t.real(0.3, 0.8), t.real(0.2, 0.8), t.range(3, 9)); d << "Cylinder"; break;
    case 3: m = Manifold::Tetrahedron(); d << "Tet"; break;
    default: m = Manifold::Cube(vec3(1.0)).Translate(vec3(-0.5)); d << "UnitCube"; break;
  }
  return m;
}
Manifold LazyT(Tape& t, const Manifold& m, int salt, std::ostream& d) {
  // general position: salted offsets / angles so that no two operands are coincident
  vec3 off(t.real(-0.6, 0.6) + 0.0137 * salt, t.real(-0.6, 0.6) + 0.0071 * salt, t.real(-0.6, 0.6) + 0.0213 * salt);
  Manifold r = m;
  int k = t.range(0, 3);
  if (k >= 1) { r = r.Rotate(t.real(-40, 40) + 1.3 * salt, t.real(-40, 40), t.real(-40, 40) + 0.7 * salt); d << ".Rot"; }
  if (k >= 2) { r = r.Scale(vec3(t.real(0.7, 1.3), t.real(0.7, 1.3), t.real(0.7, 1.3))); d << ".Scale"; }
  r = r.Translate(off); d << ".Tr";
  return r;
}

// deterministic function of the tape: called once for the concurrent run and once per serial run
void BuildShared(Tape t, Shared& sh, std::ostream& d, int& lazyCount) {
  int nS = t.range(2, 5);
  lazyCount = 0;
  for (int i = 0; i < nS; ++i) {
    d << "S" << i << "=";
    int kind = i == 0 ? 0 : t.range(0, 4);
    Manifold m;
    if (kind == 0) { m = LazyT(t, Prim(t, d), i, d); }
    else if (kind <= 2) {
      int a = t.range(0, i - 1);
      int op = t.range(0, 2);
      d << "S" << a << "op" << op << "(";
      m = sh.s[a].Boolean(LazyT(t, Prim(t, d), 10 + i, d), OpType(op));
      d << ")";
    } else if (kind == 3 && i >= 2) {
      int a = t.range(0, i - 1), b = t.range(0, i - 1);
      d << "(S" << a << "+S" << b << ".T)^";
      m = (sh.s[a] + LazyT(t, sh.s[b], 20 + i, d)) ^ LazyT(t, Prim(t, d), 30 + i, d);
    } else {
      int a = t.range(0, i - 1);
      d << "Batch{S" << a << ",";
      std::vector<Manifold> v{sh.s[a]};
      int n = t.range(1, 3);
      for (int j = 0; j < n; ++j) { v.push_back(LazyT(t, Prim(t, d), 40 + 5 * i + j, d)); d << ","; }
      d << "}";
      m = Manifold::BatchBoolean(v, OpType::Add);
    }
    bool pre = t.chance(48);
    if (pre) { (void)m.NumTri(); d << "[evaluated]"; } else ++lazyCount;
    d << " ; ";
    sh.s.push_back(m);
  }
  int nC = t.range(1, 3);
  for (int i = 0; i < nC; ++i) {
    d << "C" << i << "=";
    CrossSection c = t.flip() ? CrossSection::Square(vec2(t.real(0.5, 1.5), t.real(0.5, 1.5)), t.flip()) : CrossSection::Circle(t.real(0.4, 1.0), t.range(3, 10));
    if (i > 0 && t.flip()) { c = c.Translate(vec2(t.real(-0.5, 0.5), t.real(-0.5, 0.5))) - sh.c[t.range(0, i - 1)]; d << "diff"; }
    c = c.Rotate(t.real(-50, 50) + i).Translate(vec2(t.real(-0.5, 0.5) + 0.01 * i, t.real(-0.5, 0.5)));  // lazy transform
    if (t.chance(64)) c = c.Scale(vec2(t.real(0.6, 1.4), t.real(0.6, 1.4)));
    d << "lazyT ; ";
    sh.c.push_back(c);
  }
  int a = t.range(0, nS - 1);
  sh.ctxM = (sh.s[a] + LazyT(t, Prim(t, d), 77, d)).WithContext(sh.ctx);
  d << " ctxM=(S" << a << "+prim).WithContext ; ";
}

struct Op { int kind; int a, b; double x, y, z; int n; int delay; };
struct Prog { std::vector<Op> ops; };

constexpr uint64_t kCancelled = 0xCA11CE11ull;
constexpr uint64_t kFlex = 0xF1E8000000000000ull;  // tag: result may legitimately be kCancelled instead

struct ThreadOut {
  std::vector<uint64_t> vals;
  std::vector<std::pair<uint32_t, uint32_t>> idRanges;
  std::vector<int> freshIds;
  std::string err;
};

uint64_t HashPolys(const Polygons& ps) {
  uint64_t h = 1469598103934665603ull;
  for (auto& p : ps) { h = oracle::HI(p.size(), h); for (auto& v : p) { h = oracle::HD(v.x, h); h = oracle::HD(v.y, h); } }
  return h;
}

// Derived expressions apply a new transform to a shared leaf whose own lazy transform may or may
// not have been realised yet (T2*(T1*v) vs (T2*T1)*v): their low-order bits legitimately depend on
// the evaluation history, i.e. on the serial order chosen.  They are compared through invariants
// that are stable under such rounding.
bool gDebug = getenv("VERIF_DEBUG") != nullptr;
// with VERIF_DEBUG the parts of the fingerprint are recorded separately so that a mismatch names the field
void DebugParts(const Manifold& m, std::vector<uint64_t>& v) {
  if (!gDebug) return;
  MeshGL64 g = m.GetMeshGL64();
  v.push_back(0xD0000000 + uint64_t(m.Status())); v.push_back(0xD1000000 + m.NumVert()); v.push_back(0xD2000000 + m.NumTri());
  v.push_back(oracle::HV(g.vertProperties, 1)); v.push_back(oracle::HV(g.triVerts, 2)); v.push_back(oracle::HV(g.runIndex, 3));
  v.push_back(oracle::HV(g.runTransform, 4)); v.push_back(oracle::HV(g.faceID, 5)); v.push_back(oracle::HD(g.tolerance, 6)); v.push_back(0xD7000000 + g.runOriginalID.size());
  v.push_back(oracle::HV(g.mergeFromVert, 8)); v.push_back(oracle::HV(g.runFlags, 9)); v.push_back(oracle::HV(g.halfedgeTangent, 10)); v.push_back(oracle::HD(m.GetTolerance(), 11));
}
uint64_t Coarse(const Manifold& m) {
  uint64_t h = 1469598103934665603ull;
  h = oracle::HI(uint64_t(m.Status()), h);
  h = oracle::HI(m.NumVert(), h); h = oracle::HI(m.NumTri(), h); h = oracle::HI(uint64_t(m.Genus() + 1000), h);
  h = oracle::HI(uint64_t(std::llround(m.Volume() * 1e6)), h); h = oracle::HI(uint64_t(std::llround(m.SurfaceArea() * 1e6)), h);
  return h;
}
uint64_t CoarseCS(const CrossSection& c) {
  uint64_t h = 1469598103934665603ull;
  h = oracle::HI(c.NumVert(), h); h = oracle::HI(c.NumContour(), h); h = oracle::HI(uint64_t(std::llround(c.Area() * 1e6)), h);
  return h;
}

void Spin(int n) {
  volatile int sink = 0;
  for (int i = 0; i < n * 200; ++i) sink = sink + i;
}

// executes one op; const access to the shared objects only
void Exec(const Op& op, const Shared& sh, Manifold& local, CrossSection& localC, ThreadOut& out, bool concurrent, bool allowCancel) {
  auto& v = out.vals;
  const Manifold& A = sh.s[op.a % sh.s.size()];
  const Manifold& B = sh.s[op.b % sh.s.size()];
  const CrossSection& CA = sh.c[op.a % sh.c.size()];
  const CrossSection& CB = sh.c[op.b % sh.c.size()];
  vec3 off(op.x, op.y, op.z);
  switch (op.kind) {
    case 0: v.push_back(A.NumVert()); v.push_back(A.NumTri()); v.push_back(A.NumEdge()); break;
    case 1: v.push_back(oracle::HD(A.Volume(), 7)); v.push_back(oracle::HD(A.SurfaceArea(), 7)); break;
    case 2: { Box b = A.BoundingBox(); v.push_back(oracle::HD(b.min.x, oracle::HD(b.max.z, oracle::HD(b.min.y, 3)))); break; }
    case 3: DebugParts(A, v); v.push_back(oracle::Fingerprint(A, true)); break;
    case 4: v.push_back(uint64_t(A.Status())); v.push_back(A.IsEmpty()); v.push_back(uint64_t(A.Genus() + 100)); v.push_back(oracle::HD(A.GetTolerance(), 5)); v.push_back(A.OriginalID() >= 0); break;
    case 5: { Manifold c = A; v.push_back(c.NumTri()); v.push_back(oracle::HD(c.Volume(), 7)); break; }
    case 6: { local = A; v.push_back(local.NumVert()); local = B; v.push_back(oracle::Fingerprint(local, true)); break; }
    case 7: { Manifold r = A.Translate(off) + B; v.push_back(Coarse(r)); break; }
    case 8: { Manifold r = A - B.Translate(off).Rotate(op.x * 20, op.y * 20, 7); v.push_back(r.NumTri()); v.push_back(Coarse(r)); break; }
    case 9: { Manifold r = A.Rotate(op.x * 50, op.y * 50, op.z * 50).Translate(off); v.push_back(Coarse(r)); (void)r.GetMeshGL(); break; }
    case 10: {
      uint32_t n = uint32_t(op.n % 5 + 1);
      // half of the time a burst of reservations, so that two threads are inside the allocator's
      // read-modify-write window at the same moment (an atomicity violation there is invisible to TSan)
      int reps = op.n >= 15 ? 4000 : 1;
      for (int r = 0; r < reps; ++r) { uint32_t id = Manifold::ReserveIDs(n); out.idRanges.push_back({id, n}); }
      break;
    }
    case 11: v.push_back(oracle::HD(CA.Area(), 9)); v.push_back(CA.NumVert()); v.push_back(CA.NumContour()); v.push_back(oracle::HD(CA.GetTolerance(), 9)); v.push_back(HashPolys(CA.ToPolygons())); { Rect r = CA.Bounds(); v.push_back(oracle::HD(r.min.x, oracle::HD(r.max.y, 1))); } break;
    case 12: { localC = CA; CrossSection r = localC + CB.Translate(vec2(op.x, op.y)); v.push_back(CoarseCS(r)); (void)r.ToPolygons(); localC = CB; v.push_back(localC.NumVert()); break; }
    case 13: { Manifold r = A.AsOriginal(); out.freshIds.push_back(r.OriginalID()); v.push_back(r.NumTri()); v.push_back(oracle::Fingerprint(r, true)); break; }
    case 14: {
      int k = op.n % 6;
      Manifold r;
      if (k == 0) r = A.Refine(2);
      else if (k == 1) r = A.Simplify(0.01);
      else if (k == 2) r = A.CalculateNormals(0, 40);
      else if (k == 3) r = A.Hull();
      else if (k == 4) r = A.SetProperties(1, [](double* np, vec3 p, const double*) { np[0] = p.x + 2 * p.y; });
      else { auto parts = A.Decompose(); r = parts.empty() ? Manifold() : parts[0]; v.push_back(parts.size()); }
      v.push_back(oracle::Fingerprint(r, true));
      break;
    }
    case 15: v.push_back(uint64_t(std::llround(A.MinGap(B.Translate(off * 3.0), 2.0) * 1e6))); v.push_back(HashPolys(A.Slice(op.z * 0.3))); v.push_back(HashPolys(A.Project())); break;
    case 16: {
      // evaluation under the shared context (another thread may cancel or poll it)
      Manifold c = sh.ctxM;
      Manifold::Error e = c.Status();
      DebugParts(c, v);
      if (gDebug) fprintf(stderr, "DBG evalUnderCtx concurrent=%d tol=%.17g eps=%.17g nv=%zu\n", int(concurrent), c.GetTolerance(), c.GetEpsilon(), c.NumVert());
      v.push_back(kFlex | (e == Manifold::Error::Cancelled ? kCancelled : (oracle::Fingerprint(c, true) & 0xFFFFFFFFFFFFull)));
      break;
    }
    case 17: {
      // poll: progress is within [0,1]
      double p = sh.ctx.Progress();
      bool cn = sh.ctx.Cancelled();
      (void)cn;
      if (!(p >= 0.0 && p <= 1.0)) out.err = verif::fmt("Progress() = %g outside [0,1]", p);
      break;
    }
    case 18: if (concurrent && allowCancel) const_cast<ExecutionContext&>(sh.ctx).Cancel(); break;
    default: { Manifold r = Manifold::BatchBoolean({A, B.Translate(off), A.Translate(-off)}, OpType(op.n % 3)); v.push_back(Coarse(r)); (void)r.GetMeshGL64(); break; }
  }
}

std::vector<Prog> DecodeProgs(Tape& t, int nThreads, bool cancelCase, std::ostream& d) {
  std::vector<Prog> progs(nThreads);
  static const char* names[] = {"counts", "volume", "bbox", "mesh", "status", "copy", "assign", "T+", "-T", "lazyT", "reserveIDs", "cs-queries", "cs-derived", "asOriginal", "newObject", "gap/slice/project", "evalUnderCtx", "pollCtx", "cancelCtx", "batch"};
  for (int i = 0; i < nThreads; ++i) {
    int k = t.range(3, 10);
    d << "T" << i << ":";
    for (int j = 0; j < k; ++j) {
      Op op;
      op.kind = t.range(0, 19);
      if (op.kind == 18 && !cancelCase) op.kind = 17;
      op.a = t.range(0, 7); op.b = t.range(0, 7);
      op.x = t.real(-0.5, 0.5) + 0.013 * (i + 1); op.y = t.real(-0.5, 0.5) + 0.007 * (j + 1); op.z = t.real(-0.5, 0.5) + 0.003;
      op.n = t.range(0, 29);
      op.delay = t.chance(128) ? t.range(0, 40) : 0;
      progs[i].ops.push_back(op);
      d << " " << names[op.kind] << "(" << op.a << "," << op.b << ")";
    }
    d << " | ";
  }
  return progs;
}

void Body(Tape& t, Outcome& o) {
  auto& d = o.desc;
  int nThreads = t.range(2, 8);
  bool cancelCase = t.chance(64);
  int sharedLen = t.range(40, 120);
  // the shared objects are decoded from a fixed window of the tape so that they can be rebuilt
  std::vector<uint8_t> win(sharedLen);
  for (auto& b : win) b = uint8_t(t.byte());
  d << nThreads << " threads" << (cancelCase ? " (with Cancel)" : "") << " ; ";
  std::ostringstream sink;
  std::vector<Prog> progs = DecodeProgs(t, nThreads, cancelCase, d);

  auto fresh = [&](Shared& sh, std::ostream& dd, int& lazy) { BuildShared(Tape(win.data(), win.size()), sh, dd, lazy); };

  // serial references: several op-level serial interleavings of the same programs on fresh copies of
  // the shared objects.  Values may legitimately depend on the serial order (e.g. whether a shared
  // leaf's lazy transform was realised before a derived expression copied it), so a concurrent value
  // is accepted when it equals the value of that op in ANY sampled serial order.
  auto serialOrder = [&](const std::vector<int>& order) {
    Shared sh; int lazy;
    fresh(sh, sink, lazy);
    std::vector<ThreadOut> outs(nThreads);
    std::vector<Manifold> loc(nThreads);
    std::vector<CrossSection> locC(nThreads);
    std::vector<size_t> pc(nThreads, 0);
    for (int i : order) { if (pc[i] < progs[i].ops.size()) { Exec(progs[i].ops[pc[i]], sh, loc[i], locC[i], outs[i], false, false); ++pc[i]; } }
    for (int i = 0; i < nThreads; ++i) while (pc[i] < progs[i].ops.size()) { Exec(progs[i].ops[pc[i]], sh, loc[i], locC[i], outs[i], false, false); ++pc[i]; }
    return outs;
  };
  std::vector<std::vector<int>> orders;
  { std::vector<int> o1; for (int i = 0; i < nThreads; ++i) for (size_t j = 0; j < progs[i].ops.size(); ++j) o1.push_back(i); orders.push_back(o1); }          // thread after thread
  { std::vector<int> o2; for (int i = nThreads - 1; i >= 0; --i) for (size_t j = 0; j < progs[i].ops.size(); ++j) o2.push_back(i); orders.push_back(o2); }     // reversed
  { std::vector<int> o3; for (size_t j = 0; j < 10; ++j) for (int i = nThreads - 1; i >= 0; --i) o3.push_back(i); orders.push_back(o3); }                      // round-robin
  for (int f = 0; f < nThreads; ++f) { std::vector<int> o4; for (size_t j = 0; j < progs[f].ops.size(); ++j) o4.push_back(f); for (size_t j = 0; j < 10; ++j) for (int i = 0; i < nThreads; ++i) if (i != f) o4.push_back(i); orders.push_back(o4); }  // f first
  for (int r = 0; r < 6; ++r) { std::vector<int> o5; for (int k = 0; k < 10 * nThreads; ++k) o5.push_back(t.range(0, nThreads - 1)); orders.push_back(o5); }   // generated interleavings
  std::vector<std::vector<ThreadOut>> refs;
  for (auto& ord : orders) refs.push_back(serialOrder(ord));
  std::vector<ThreadOut>& refA = refs[0];
  bool orderSensitive = false;
  for (auto& r : refs) for (int i = 0; i < nThreads; ++i) if (r[i].vals != refA[i].vals) orderSensitive = true;
  if (orderSensitive) o.cls("order-sensitive-values");

  // concurrent run
  Shared sh; int lazy = 0;
  fresh(sh, d, lazy);
  std::vector<ThreadOut> outs(nThreads);
  std::atomic<int> ready{0}, done{0};
  std::atomic<bool> go{false};
  std::vector<std::thread> th;
  for (int i = 0; i < nThreads; ++i) {
    th.emplace_back([&, i] {
      Manifold local; CrossSection localC;
      ready.fetch_add(1);
      while (!go.load(std::memory_order_acquire)) { }
      for (auto& op : progs[i].ops) { if (op.delay) Spin(op.delay); Exec(op, sh, local, localC, outs[i], true, cancelCase); }
      done.fetch_add(1);
    });
  }
  while (ready.load() < nThreads) std::this_thread::yield();
  go.store(true, std::memory_order_release);
  for (auto& x : th) x.join();  // a deadlock shows as the per-case watchdog firing (exit 5)

  // judge
  long sharedLazyTouches = 0;
  for (int i = 0; i < nThreads && o.ok; ++i) {
    if (!outs[i].err.empty()) { o.fail("threads:progress-range", outs[i].err); break; }
    if (outs[i].vals.size() != refA[i].vals.size()) { o.fail("threads:result-count", verif::fmt("thread %d produced %zu values, serial %zu", i, outs[i].vals.size(), refA[i].vals.size())); break; }
    for (size_t k = 0; k < outs[i].vals.size(); ++k) {
      uint64_t got = outs[i].vals[k], want = refA[i].vals[k];
      bool okAny = false;
      for (auto& r : refs) if (k < r[i].vals.size() && r[i].vals[k] == got) okAny = true;
      if (okAny) continue;
      if ((want & kFlex) == kFlex && cancelCase && got == (kFlex | kCancelled)) continue;  // cancelled by another thread
      o.fail("threads:result-differs", verif::fmt("thread %d, value #%zu: concurrent %016llx matches none of %zu serial orders (first: %016llx)", i, k, (unsigned long long)got, refs.size(), (unsigned long long)want));
      break;
    }
  }
  if (o.ok) {
    // reserved ID ranges are pairwise disjoint; AsOriginal IDs are all different
    std::vector<std::pair<uint32_t, uint32_t>> all;
    std::vector<int> ids;
    for (auto& x : outs) { all.insert(all.end(), x.idRanges.begin(), x.idRanges.end()); ids.insert(ids.end(), x.freshIds.begin(), x.freshIds.end()); }
    std::sort(all.begin(), all.end());
    for (size_t k = 1; k < all.size(); ++k)
      if (all[k - 1].first + all[k - 1].second > all[k].first) { o.fail("threads:reserved-ids-overlap", verif::fmt("ReserveIDs ranges [%u,+%u) and [%u,+%u) overlap", all[k - 1].first, all[k - 1].second, all[k].first, all[k].second)); break; }
    std::sort(ids.begin(), ids.end());
    for (size_t k = 1; k < ids.size() && o.ok; ++k)
      if (ids[k] == ids[k - 1] && ids[k] >= 0) o.fail("threads:duplicate-original-id", verif::fmt("two AsOriginal() results in different threads got ID %d", ids[k]));
    for (auto& r : all)
      for (int id : ids)
        if (id >= 0 && uint32_t(id) >= r.first && uint32_t(id) < r.first + r.second && o.ok) o.fail("threads:reserved-id-reused", verif::fmt("AsOriginal() ID %d lies inside a range handed out by ReserveIDs", id));
  }
  // how contended was it: ops on objects that were lazy at the start
  for (auto& p : progs) for (auto& op : p.ops) if (op.kind <= 9 || op.kind >= 13) ++sharedLazyTouches;
  o.counters["ops"] += long(sharedLazyTouches);
  o.counters["threads"] += nThreads;
  o.nontrivial = lazy > 0 && nThreads >= 2;
  o.cls(verif::fmt("threads:%d", nThreads));
  if (cancelCase) o.cls("cancel-from-other-thread");
  o.fingerprint = verif::fnv(t.d, t.n);
}
}  // namespace

int main(int argc, char** argv) {
  verif::Config cfg{"C06", "threads",
                    "2-5 shared Manifolds (primitives under lazy transforms; Booleans / batches over earlier shared ones, so sub-expressions are shared; some pre-evaluated), 1-3 CrossSections with pending lazy transforms, one ExecutionContext attached to a lazy expression; 2-8 real threads each run 3-10 generated ops (counts, volume, bbox, full mesh export, status, copy, assign, derived Booleans/transforms, ReserveIDs, AsOriginal, Refine/Simplify/CalculateNormals/Hull/SetProperties/Decompose, MinGap/Slice/Project, cross-section queries and derived cross-sections, evaluation under the shared context, Progress/Cancelled polls, Cancel from another thread) with generated spin delays after a common start barrier; oracle: zero ThreadSanitizer reports (halt_on_error), per-op fingerprints equal to two agreeing serial executions (Cancelled accepted for evaluations under a context another thread cancels), reserved ID ranges disjoint, fresh original IDs unique; non-trivial = at least one shared object still lazy when the threads start; distinct = tape",
                    16};
  return verif::run_main(argc, argv, cfg, Body);
}
