// C18: measurements and queries vs brute-force definitions on the export.
#include <numeric>
#include <set>

#include "common/verif.h"
#include "gen/solids.h"
#include "oracle/geom2.h"
#include "oracle/topo.h"
#include "oracle/tri3.h"

using namespace manifold;
using oracle::Soup;
using oracle::V3;
using verif::Outcome;
using verif::Tape;

namespace {

// epsilon-valid solid of genus 0..3 with 1..3 components in a generic pose
Manifold GenSolid(Tape& t, std::ostream& d, int& ops) {
  Manifold m = gen::GenPose(t, gen::GenPrimitive(t, d), 0, d, 0.3);
  int extra = t.range(0, 3);
  ops = 0;
  for (int i = 0; i < extra; ++i) {
    int kind = t.range(0, 3);
    d << (kind == 0 ? " + " : kind == 1 ? " - " : kind == 2 ? " ^ " : " ++far ");
    Manifold b = gen::GenPose(t, gen::GenPrimitive(t, d), i + 1, d, 0.5);
    if (kind == 3) b = b.Translate(vec3(4.0 + i, 0.37 * (i + 1), -0.21));
    Manifold r = kind == 1 ? m - b : kind == 2 ? m ^ b : m + b;
    if (!r.IsEmpty()) { m = r; ++ops; }
  }
  if (t.chance(40)) { m = m.Refine(2); d << " .Refine(2)"; }
  return m;
}

bool ValidSolid(const Soup& s, Tape& t, double scale) {
  // precondition screen (as C02): winding 0/1 just off the surface
  size_t stride = std::max<size_t>(1, s.t.size() / 24);
  for (size_t i = 0; i < s.t.size(); i += stride) {
    V3 a = s.A(i), b = s.B(i), c = s.C(i), n = oracle::cross(b - a, c - a);
    double l = oracle::norm(n);
    if (!(l > 0)) continue;
    for (double sgn : {1.0, -1.0}) {
      V3 p = (a + b + c) * (1.0 / 3) + n * (sgn * 1e-4 * scale / l);
      double w = oracle::Winding(s, p);
      long k = std::lround(w);
      if (std::abs(w - k) > 1e-6 || (k != 0 && k != 1)) return false;
    }
  }
  return true;
}

void Body(Tape& t, Outcome& o) {
  auto& d = o.desc;
  int ops;
  Manifold m = GenSolid(t, d, ops);
  if (m.Status() != Manifold::Error::NoError || m.IsEmpty()) { o.exclude("empty-or-error operand"); return; }
  MeshGL64 g = m.GetMeshGL64();
  Soup s = oracle::MakeSoup(g);
  double scale = s.scale();
  double tol = m.GetTolerance();
  double guard = 64 * tol + 1e-9 * scale;
  if (!ValidSolid(s, t, scale)) { o.exclude("operand-not-0/1-winding (precondition)"); return; }
  d << " ; tris=" << s.t.size();

  // --- Volume / SurfaceArea / BoundingBox / counts ---
  double vol = oracle::Volume(s), area = oracle::Area(s);
  if (std::abs(m.Volume() - vol) > 1e-10 * (std::abs(vol) + scale * scale * scale)) { o.fail("measure:volume", verif::fmt("Volume()=%.17g, signed-tetrahedron sum %.17g", m.Volume(), vol)); return; }
  if (std::abs(m.SurfaceArea() - area) > 1e-10 * (area + scale * scale)) { o.fail("measure:area", verif::fmt("SurfaceArea()=%.17g, triangle sum %.17g", m.SurfaceArea(), area)); return; }
  Box bb = m.BoundingBox();
  if (bb.min.x != s.lo.x || bb.min.y != s.lo.y || bb.min.z != s.lo.z || bb.max.x != s.hi.x || bb.max.y != s.hi.y || bb.max.z != s.hi.z) { o.fail("measure:bbox", "BoundingBox is not the tight box of the exported vertices"); return; }
  if (m.NumTri() != s.t.size() || m.IsEmpty() != s.t.empty() || m.NumProp() + 3 != size_t(g.numProp)) { o.fail("measure:counts", ""); return; }
  {
    auto cls = oracle::MergeClasses(g, s.v.size());
    std::set<size_t> u(cls.begin(), cls.end());
    if (m.NumVert() != u.size()) { o.fail("measure:numvert", ""); return; }
  }

  V3 lo = s.lo, hi = s.hi, ext = hi - lo;
  auto randPt = [&]() { return V3(lo.x - 0.1 * ext.x + 1.2 * ext.x * t.unit(), lo.y - 0.1 * ext.y + 1.2 * ext.y * t.unit(), lo.z - 0.1 * ext.z + 1.2 * ext.z * t.unit()); };

  // --- WindingNumber ---
  {
    std::vector<vec3> q;
    std::vector<V3> qq;
    for (int i = 0; i < 40; ++i) { V3 p = randPt(); if (oracle::SurfaceDist(s, p) > guard) { qq.push_back(p); q.push_back(vec3(p.x, p.y, p.z)); } }
    std::vector<int> w = m.WindingNumber(q);
    if (w.size() != q.size()) { o.fail("measure:winding-size", ""); return; }
    for (size_t i = 0; i < q.size(); ++i) {
      long mine = std::lround(oracle::Winding(s, qq[i]));
      if (w[i] != mine) { o.fail("measure:winding", verif::fmt("WindingNumber=%d, solid-angle sum %ld at (%.17g,%.17g,%.17g)", w[i], mine, q[i].x, q[i].y, q[i].z)); return; }
    }
  }

  // --- RayCast ---
  long raysUsed = 0, raysSkipped = 0, raysWithHits = 0;
  for (int r = 0; r < 12; ++r) {
    V3 a = randPt(), b = randPt();
    if (r % 3 == 0) { V3 c = (lo + hi) * 0.5, dir = b - a; b = c + dir; a = c - dir; }  // through the middle
    std::vector<oracle::SegHit> mine;
    bool generic = oracle::SurfaceDist(s, a) > guard && oracle::SurfaceDist(s, b) > guard;
    for (size_t i = 0; i < s.t.size() && generic; ++i) {
      oracle::SegHit h;
      // widen slightly to detect near-edge/near-end configurations
      V3 A = s.A(i), B = s.B(i), C = s.C(i);
      V3 dd = b - a, e1 = B - A, e2 = C - A, p = oracle::cross(dd, e2);
      double det = oracle::dot(e1, p);
      if (std::abs(det) < 1e-12 * scale * scale * scale) {
        // segment (nearly) parallel to the triangle plane: generic only if far from it
        V3 n = oracle::cross(e1, e2); double l = oracle::norm(n);
        if (l > 0 && std::abs(oracle::dot(a - A, n)) / l < 1e-6 * scale && oracle::PointTriDist2(a, A, B, C) < 4 * oracle::dot(dd, dd)) generic = false;
        continue;
      }
      if (!oracle::SegTri(a, b, A, B, C, h)) {
        // a near miss at an edge is non-generic
        double inv = 1 / det; V3 sv = a - A; double u = oracle::dot(sv, p) * inv; V3 q = oracle::cross(sv, e1); double v = oracle::dot(dd, q) * inv, tt = oracle::dot(e2, q) * inv;
        if (tt > -1e-6 && tt < 1 + 1e-6 && u > -1e-6 && v > -1e-6 && u + v < 1 + 1e-6) generic = false;
        continue;
      }
      if (h.u < 1e-6 || h.v < 1e-6 || 1 - h.u - h.v < 1e-6 || h.t < 1e-9 || h.t > 1 - 1e-9) { generic = false; break; }
      h.tri = i;
      mine.push_back(h);
    }
    if (!generic) { ++raysSkipped; continue; }
    ++raysUsed;
    std::sort(mine.begin(), mine.end(), [](auto& x, auto& y) { return x.t < y.t; });
    std::vector<RayHit> hits = m.RayCast(vec3(a.x, a.y, a.z), vec3(b.x, b.y, b.z));
    if (hits.size() != mine.size()) { o.fail("measure:raycast-count", verif::fmt("RayCast returned %zu hits, brute force %zu for segment (%.17g,%.17g,%.17g)-(%.17g,%.17g,%.17g)", hits.size(), mine.size(), a.x, a.y, a.z, b.x, b.y, b.z)); return; }
    for (size_t i = 0; i < hits.size(); ++i) {
      if (i && hits[i].distance < hits[i - 1].distance) { o.fail("measure:raycast-order", "hits not sorted by distance"); return; }
      if (std::abs(hits[i].distance - mine[i].t) > 1e-9) { o.fail("measure:raycast-t", verif::fmt("hit %zu at t=%.17g, brute force %.17g", i, hits[i].distance, mine[i].t)); return; }
      V3 on = a + (b - a) * hits[i].distance;
      if (oracle::norm(V3(hits[i].position.x, hits[i].position.y, hits[i].position.z) - on) > 1e-9 * scale) { o.fail("measure:raycast-position", "hit position is not on the segment at its distance"); return; }
      if (hits[i].faceID >= s.t.size()) { o.fail("measure:raycast-face", "faceID out of range"); return; }
    }
    int ina = oracle::Classify(s, a, guard), inb = oracle::Classify(s, b, guard);
    if (ina >= 0 && inb >= 0 && int(hits.size() % 2) != (ina ^ inb)) { o.fail("measure:raycast-parity", "hit parity differs from inside(origin) xor inside(end)"); return; }
    if (!hits.empty()) ++raysWithHits;
  }

  // --- Slice ---
  {
    double z = lo.z + ext.z * (0.05 + 0.9 * t.unit());
    Polygons sl = m.Slice(z);
    for (int i = 0; i < 40; ++i) {
      V3 p = randPt(); p.z = z;
      if (oracle::SurfaceDist(s, p) <= guard) continue;
      if (!sl.empty() && oracle::EdgeDist(sl, vec2(p.x, p.y)) <= guard) continue;
      long w3 = std::lround(oracle::Winding(s, p));
      int w2 = oracle::Winding2(sl, vec2(p.x, p.y));
      if (w2 != w3) { o.fail("measure:slice", verif::fmt("Slice(%.17g): 2D winding %d at (%.17g,%.17g), solid winding %ld", z, w2, p.x, p.y, w3)); return; }
    }
  }

  // --- Project ---
  if (s.t.size() <= 1500) {
    Polygons pr = m.Project();
    for (int i = 0; i < 40; ++i) {
      V3 p3 = randPt();
      vec2 p(p3.x, p3.y);
      bool covered = false, nearEdge = false;
      for (size_t k = 0; k < s.t.size() && !nearEdge; ++k) {
        vec2 a(s.A(k).x, s.A(k).y), b(s.B(k).x, s.B(k).y), c(s.C(k).x, s.C(k).y);
        if (oracle::PointSegDist(p, a, b) <= guard || oracle::PointSegDist(p, b, c) <= guard || oracle::PointSegDist(p, c, a) <= guard) nearEdge = true;
        double d1 = oracle::Cross2(b - a, p - a), d2 = oracle::Cross2(c - b, p - b), d3 = oracle::Cross2(a - c, p - c);
        if ((d1 > 0 && d2 > 0 && d3 > 0) || (d1 < 0 && d2 < 0 && d3 < 0)) covered = true;
      }
      if (nearEdge) continue;
      int w = oracle::Winding2(pr, p);
      if ((w > 0) != covered) { o.fail("measure:project", verif::fmt("Project(): winding %d at (%.17g,%.17g) but shadow covered=%d", w, p.x, p.y, int(covered))); return; }
    }
  }

  // --- Decompose ---
  {
    auto cls = oracle::MergeClasses(g, s.v.size());
    std::vector<size_t> par(s.v.size());
    std::iota(par.begin(), par.end(), 0);
    std::function<size_t(size_t)> find = [&](size_t x) { while (par[x] != x) { par[x] = par[par[x]]; x = par[x]; } return x; };
    for (auto& tr : s.t) { size_t a = find(cls[tr[0]]); for (int k = 1; k < 3; ++k) { size_t b = find(cls[tr[k]]); if (a != b) par[b] = a; } }
    std::set<size_t> comps;
    for (auto& tr : s.t) comps.insert(find(cls[tr[0]]));
    std::vector<Manifold> parts = m.Decompose();
    if (parts.size() != comps.size()) { o.fail("measure:decompose-count", verif::fmt("Decompose returned %zu parts, union-find finds %zu components", parts.size(), comps.size())); return; }
    double sum = 0;
    size_t tris = 0;
    for (auto& p : parts) { sum += oracle::Volume(oracle::MakeSoup(p)); tris += p.NumTri(); }
    if (std::abs(sum - vol) > 1e-9 * (std::abs(vol) + scale * scale * scale) || tris != s.t.size()) { o.fail("measure:decompose-volume", "component volumes/triangles do not sum to the whole"); return; }
    if (comps.size() > 1) o.cls("multi-component");
  }

  // --- MinGap ---
  if (s.t.size() <= 400) {
    std::ostringstream sink;
    Manifold other = gen::GenPose(t, gen::GenPrimitive(t, sink, 3), 5, sink, 0.3);
    double sep = t.real(-0.3, 1.5);
    other = other.Translate(vec3(ext.x * 0.5 + sep, 0.123, -0.077));
    Soup so = oracle::MakeSoup(other);
    if (so.t.size() <= 400 && ValidSolid(so, t, so.scale())) {
      double search = t.real(0.05, 3.0);
      double best = 1e300;
      for (size_t i = 0; i < s.t.size(); ++i)
        for (size_t j = 0; j < so.t.size(); ++j) {
          V3 ta[3] = {s.A(i), s.B(i), s.C(i)}, tb[3] = {so.A(j), so.B(j), so.C(j)};
          best = std::min(best, oracle::TriTriDist2(ta, tb));
        }
      best = std::sqrt(best);
      bool inter = best == 0;
      if (!inter) {
        // containment without surface contact
        // (every vertex, not just the first: either solid may have several components, one of which can lie
        // entirely inside the other solid)
        for (auto& q : so.v) if (!inter && oracle::Classify(s, q, 0) == 1) inter = true;
        for (auto& q : s.v) if (!inter && oracle::Classify(so, q, 0) == 1) inter = true;
      }
      double g2 = 64 * std::max(tol, other.GetTolerance()) + 1e-9 * std::max(scale, so.scale());
      if (inter || best > g2) {
        double want = inter ? 0.0 : std::min(best, search);
        double got = m.MinGap(other, search);
        if (std::abs(got - want) > 1e-9 * (1 + want) && getenv("VERIF_DEBUG")) { Manifold x = m ^ other; fprintf(stderr, "DEBUG mingap: (m^other) tris=%zu vol=%g status=%d ; m tris=%zu other tris=%zu\n", x.NumTri(), x.Volume(), int(x.Status()), m.NumTri(), other.NumTri()); }
        if (std::abs(got - want) > 1e-9 * (1 + want)) { o.fail("measure:mingap", verif::fmt("MinGap=%.17g, brute force %.17g (search %.17g, separation %.17g)", got, want, search, best)); return; }
        o.cls(inter ? "mingap-intersecting" : best < search ? "mingap-within-search" : "mingap-beyond-search");
      }
    }
  }
  o.counters["rays_used"] += raysUsed;
  o.counters["rays_skipped_nongeneric"] += raysSkipped;
  o.nontrivial = s.t.size() >= 64 && raysWithHits > 0;
  o.cls(ops ? "boolean-built" : "primitive");
  o.fingerprint = verif::fnv_str(o.desc.str());
}
}  // namespace

int main(int argc, char** argv) {
  verif::Config cfg{"C18", "measure",
                    "epsilon-valid solids: 1-4 primitives in generic poses combined by union/difference/intersection, optional far component, optional Refine(2); Volume/SurfaceArea/BoundingBox/counts vs own sums; WindingNumber vs solid-angle sum; 12 segments through RayCast vs all-triangle Moeller-Trumbore (segments with a hit within 1e-6 of an edge or end are skipped and counted); Slice at a generic z vs 3D winding; Project vs per-triangle shadow; Decompose vs union-find; MinGap vs all-pairs triangle distance; non-trivial = >=64 triangles and >=1 segment with hits; distinct = case text hash",
                    14};
  return verif::run_main(argc, argv, cfg, Body);
}
