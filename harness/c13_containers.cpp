// C13 (containers): concurrent unite/find/same on DisjointSets and concurrent
// Insert on HashTable under a *controlled scheduler*.  The MANIFOLD_VERIF
// yield hook turns every shared-memory access of the containers into a yield
// point; worker threads run one at a time and a generated decision tape
// chooses who continues, so sequentially consistent interleavings are
// generated, replayed and shrunk, and - for small configurations - enumerated
// up to a preemption bound.
#include <condition_variable>
#include <mutex>
#include <numeric>
#include <thread>
#include <map>
#include <set>
#include <functional>

#include "common/verif.h"
#include "disjoint_sets.h"
#include "hashtable.h"

using namespace manifold;
using verif::Outcome;
using verif::Tape;

namespace {

struct Scheduler {
  std::mutex m;
  std::condition_variable cv;
  int current = -1;              // worker allowed to run, -1 = scheduler's turn
  std::vector<char> finished;
  std::function<int(int runnable, int last)> choose;  // returns index among runnable workers
  long yields = 0, switches = 0, preemptInCas = 0;
  bool active = false;
  long stepLimit = 200000;
  bool livelock = false;
};
Scheduler* g_s = nullptr;
thread_local int tl_me = -1;

void WorkerWait(Scheduler& s, int me, std::unique_lock<std::mutex>& lk) {
  s.cv.wait(lk, [&] { return s.current == me; });
}

}  // namespace

extern "C" void manifold_verif_yield(int site) {
  Scheduler* s = g_s;
  if (!s || !s->active || tl_me < 0) return;
  std::unique_lock<std::mutex> lk(s->m);
  ++s->yields;
  if (site == 12 || site == 13 || site == 15 || site == 21) ++s->preemptInCas;
  s->current = -1;
  s->cv.notify_all();
  WorkerWait(*s, tl_me, lk);
}

namespace {

// runs the thread programs under the controlled scheduler
void RunControlled(Scheduler& s, const std::vector<std::function<void()>>& progs) {
  int n = int(progs.size());
  s.finished.assign(n, 0);
  s.current = -1;
  s.active = true;
  g_s = &s;
  std::vector<std::thread> th;
  for (int i = 0; i < n; ++i)
    th.emplace_back([&, i] {
      tl_me = i;
      {
        std::unique_lock<std::mutex> lk(s.m);
        WorkerWait(s, i, lk);
      }
      progs[i]();
      std::unique_lock<std::mutex> lk(s.m);
      s.finished[i] = 1;
      s.current = -1;
      s.cv.notify_all();
    });
  int last = -1;
  long steps = 0;
  while (true) {
    std::unique_lock<std::mutex> lk(s.m);
    s.cv.wait(lk, [&] { return s.current == -1; });
    std::vector<int> runnable;
    for (int i = 0; i < n; ++i) if (!s.finished[i]) runnable.push_back(i);
    if (runnable.empty()) break;
    int lastIdx = -1;
    for (size_t k = 0; k < runnable.size(); ++k) if (runnable[k] == last) lastIdx = int(k);
    int pick = (++steps > s.stepLimit) ? (s.livelock = true, 0) : s.choose(int(runnable.size()), lastIdx);
    if (pick < 0 || pick >= int(runnable.size())) pick = 0;
    if (runnable[pick] != last && last >= 0 && !s.finished[last]) ++s.switches;
    last = runnable[pick];
    s.current = last;
    s.cv.notify_all();
  }
  for (auto& t : th) t.join();
  s.active = false;
  g_s = nullptr;
}

struct DsOp { int kind, a, b; };  // 0 unite 1 find 2 same

struct DsCase {
  int elems;
  std::vector<std::vector<DsOp>> prog;
};

// executes a union-find case; returns false (and fills o) on violation
bool RunDs(const DsCase& c, Scheduler& s, Outcome& o) {
  DisjointSets ds(c.elems);
  std::vector<std::vector<long>> obs(c.prog.size());
  std::vector<std::function<void()>> progs;
  for (size_t ti = 0; ti < c.prog.size(); ++ti)
    progs.push_back([&, ti] {
      for (auto& op : c.prog[ti]) {
        if (op.kind == 0) obs[ti].push_back(long(ds.unite(op.a, op.b)));
        else if (op.kind == 1) obs[ti].push_back(long(ds.find(op.a)));
        else obs[ti].push_back(ds.same(op.a, op.b) ? 1 : 0);
      }
    });
  RunControlled(s, progs);
  if (s.livelock) { o.fail("container:livelock", "union-find operations did not finish within the step limit under a fair-less schedule"); return false; }
  // reference: sequential union-find over the same pairs
  std::vector<int> par(c.elems);
  std::iota(par.begin(), par.end(), 0);
  std::function<int(int)> fnd = [&](int x) { return par[x] == x ? x : par[x] = fnd(par[x]); };
  for (auto& p : c.prog) for (auto& op : p) if (op.kind == 0) par[fnd(op.a)] = fnd(op.b);
  for (int i = 0; i < c.elems; ++i)
    for (int j = i + 1; j < c.elems; ++j) {
      bool want = fnd(i) == fnd(j);
      bool got = ds.find(i) == ds.find(j);
      if (want != got) { o.fail("container:union-find-partition", verif::fmt("elements %d and %d: concurrent result says %s, sequential union of the same pairs says %s", i, j, got ? "same" : "different", want ? "same" : "different")); return false; }
      if (ds.same(i, j) != want) { o.fail("container:union-find-same", verif::fmt("same(%d,%d) disagrees with the final partition", i, j)); return false; }
    }
  // observations: a representative is in the same final class; same()==true is never wrong
  for (size_t ti = 0; ti < c.prog.size(); ++ti)
    for (size_t k = 0; k < c.prog[ti].size(); ++k) {
      auto& op = c.prog[ti][k];
      long r = obs[ti][k];
      if (op.kind != 2) {
        if (r < 0 || r >= c.elems || fnd(int(r)) != fnd(op.a)) { o.fail("container:union-find-representative", verif::fmt("%s returned %ld which is not in the class of %d", op.kind == 0 ? "unite" : "find", r, op.a)); return false; }
      } else if (r == 1 && fnd(op.a) != fnd(op.b)) { o.fail("container:union-find-same-true", verif::fmt("same(%d,%d) returned true but the elements are never united", op.a, op.b)); return false; }
    }
  return true;
}

uint64_t IdHash(uint64_t x) { return x; }  // identity hash: collisions on purpose

struct HtCase {
  int size;      // requested table size
  uint32_t step;
  std::vector<std::vector<std::pair<uint64_t, int>>> prog;  // (key, value) inserts per thread
};

bool RunHt(const HtCase& c, Scheduler& s, Outcome& o, bool& wasFull) {
  HashTable<int, IdHash> table(c.size, c.step);
  std::vector<std::function<void()>> progs;
  for (size_t ti = 0; ti < c.prog.size(); ++ti)
    progs.push_back([&, ti] {
      auto d = table.D();
      for (auto& kv : c.prog[ti]) d.Insert(kv.first, kv.second);
    });
  RunControlled(s, progs);
  if (s.livelock) { o.fail("container:livelock", "hash table inserts did not finish"); return false; }
  wasFull = table.Full();
  if (wasFull) return true;  // "unless the table reports Full"
  auto d = table.D();
  std::map<uint64_t, std::set<int>> allowed;
  for (auto& p : c.prog) for (auto& kv : p) allowed[kv.first].insert(kv.second);
  size_t present = 0;
  for (int i = 0; i < d.Size(); ++i) if (d.KeyAt(i) != HashTable<int, IdHash>::Open()) ++present;
  if (present != allowed.size()) { o.fail("container:hashtable-key-count", verif::fmt("%zu distinct keys inserted, %zu slots occupied", allowed.size(), present)); return false; }
  if (size_t(table.Entries()) != allowed.size()) { o.fail("container:hashtable-entries", verif::fmt("Entries()=%d, distinct keys %zu", table.Entries(), allowed.size())); return false; }
  for (auto& kv : allowed) {
    // the key must be retrievable: lookup must land on the key's own slot
    bool found = false;
    for (int i = 0; i < d.Size(); ++i) if (d.KeyAt(i) == kv.first) found = true;
    if (!found) { o.fail("container:hashtable-lost-key", verif::fmt("key %llu was inserted but is not in the table", (unsigned long long)kv.first)); return false; }
    int v = d[kv.first];
    if (!kv.second.count(v)) { o.fail("container:hashtable-value", verif::fmt("key %llu maps to %d, which no thread inserted", (unsigned long long)kv.first, v)); return false; }
  }
  return true;
}

DsCase GenDs(Tape& t, std::ostream& d) {
  DsCase c;
  c.elems = t.range(2, 8);
  int nt = t.range(2, 3);
  d << "DisjointSets(" << c.elems << ") ";
  for (int i = 0; i < nt; ++i) {
    std::vector<DsOp> p;
    int n = t.range(1, 6);
    d << "T" << i << "[";
    for (int k = 0; k < n; ++k) {
      DsOp op{t.range(0, 4) <= 2 ? 0 : t.range(1, 2), t.range(0, c.elems - 1), t.range(0, c.elems - 1)};
      p.push_back(op);
      d << (op.kind == 0 ? "unite(" : op.kind == 1 ? "find(" : "same(") << op.a;
      if (op.kind != 1) d << "," << op.b;
      d << ") ";
    }
    d << "] ";
    c.prog.push_back(p);
  }
  return c;
}

HtCase GenHt(Tape& t, std::ostream& d) {
  HtCase c;
  c.size = 1 << t.range(2, 4);
  c.step = t.flip() ? 1 : 3;
  int nt = t.range(2, 3);
  bool mayFill = t.chance(48);
  int maxPer = mayFill ? 8 : std::max(1, c.size / 2 / nt - 0);
  d << "HashTable(" << c.size << ",step" << c.step << ") ";
  for (int i = 0; i < nt; ++i) {
    std::vector<std::pair<uint64_t, int>> p;
    int n = t.range(1, std::min(6, maxPer));
    d << "T" << i << "[";
    for (int k = 0; k < n; ++k) {
      uint64_t key = uint64_t(t.range(0, 11));  // small key space: collisions and duplicates between threads
      if (t.chance(64)) key += uint64_t(c.size) * t.range(1, 3);  // same slot, different key
      int val = int(key) * 10 + (t.chance(200) ? 0 : i + 1);     // usually the same value for a key, sometimes thread-specific
      p.push_back({key, val});
      d << key << "->" << val << " ";
    }
    d << "] ";
    c.prog.push_back(p);
  }
  return c;
}

void Body(Tape& t, Outcome& o) {
  bool ds = t.flip();
  Scheduler s;
  DsCase dc;
  HtCase hc;
  if (ds) dc = GenDs(t, o.desc); else hc = GenHt(t, o.desc);
  // the rest of the tape is the schedule: at each yield pick the next worker
  int stick = t.range(0, 3);  // bias towards continuing the same worker (fewer switches) or not
  s.choose = [&t, stick](int runnable, int lastIdx) {
    if (lastIdx >= 0 && stick > 0 && int(t.range(0, 3)) < stick) return lastIdx;
    return int(t.range(0, runnable - 1));
  };
  bool full = false;
  bool ok = ds ? RunDs(dc, s, o) : RunHt(hc, s, o, full);
  (void)ok;
  o.counters["yields"] += s.yields;
  o.counters["context_switches"] += s.switches;
  o.nontrivial = s.switches >= 2 && s.preemptInCas > 0;
  o.cls(ds ? "disjoint-sets" : (full ? "hashtable-full" : "hashtable"));
  o.fingerprint = verif::fnv(t.d, t.n);
}

// preemption-bounded exhaustive enumeration over fixed small configurations
void Enumerate(const std::function<void(Outcome&)>& report, int level) {
  const int bound = level >= 1 ? 3 : 2;
  std::vector<DsCase> dcs = {
      {4, {{{0, 0, 1}, {0, 2, 3}}, {{0, 1, 2}, {0, 0, 3}}}},
      {3, {{{0, 0, 1}, {2, 0, 2}}, {{0, 1, 2}, {1, 0, 0}}}},
      {4, {{{0, 0, 1}}, {{0, 1, 0}}, {{0, 2, 3}, {0, 3, 0}}}},
      {5, {{{0, 0, 1}, {0, 1, 2}}, {{0, 3, 4}, {0, 4, 2}}}},
  };
  std::vector<HtCase> hcs = {
      {8, 1, {{{1, 10}, {9, 90}}, {{1, 10}, {17, 170}}}},
      {8, 1, {{{2, 20}, {3, 30}}, {{10, 100}, {2, 20}}}},
      {4, 1, {{{0, 1}}, {{4, 41}}, {{0, 1}}}},
      {8, 3, {{{5, 50}, {13, 130}}, {{13, 130}, {5, 50}}}},
  };
  auto explore = [&](auto runOne, const std::string& label) {
    // DFS over schedules: a schedule is the list of (step -> chosen worker) at
    // points where a *preemption* happens; everywhere else the running worker continues.
    std::vector<std::pair<long, int>> pre;  // (yield index, worker index among runnable)
    std::function<void(std::vector<std::pair<long, int>>&, long)> rec;
    long executed = 0;
    rec = [&](std::vector<std::pair<long, int>>& prefix, long fromStep) {
      Scheduler s;
      long step = 0;
      std::vector<int> runnableAt;  // number of runnable workers at each decision
      s.choose = [&](int runnable, int lastIdx) {
        long here = step++;
        runnableAt.push_back(runnable);
        for (auto& p : prefix) if (p.first == here) return p.second;
        return lastIdx >= 0 ? lastIdx : 0;
      };
      Outcome o;
      o.desc << label << " preemptions@";
      for (auto& p : prefix) o.desc << p.first << ":" << p.second << " ";
      runOne(s, o);
      o.nontrivial = !prefix.empty();
      o.fingerprint = verif::fnv_str(o.desc.str());
      report(o);
      ++executed;
      if (int(prefix.size()) >= bound) return;
      long total = step;
      for (long at = fromStep; at < total; ++at)
        for (int w = 0; w < runnableAt[at]; ++w) {
          // choosing the continuing worker is not a preemption; skip duplicates of the default
          prefix.push_back({at, w});
          rec(prefix, at + 1);
          prefix.pop_back();
        }
    };
    std::vector<std::pair<long, int>> p0;
    rec(p0, 0);
  };
  int idx = 0;
  for (auto& c : dcs) { ++idx; explore([&](Scheduler& s, Outcome& o) { RunDs(c, s, o); }, "DS#" + std::to_string(idx)); }
  idx = 0;
  for (auto& c : hcs) { ++idx; explore([&](Scheduler& s, Outcome& o) { bool f; RunHt(c, s, o, f); }, "HT#" + std::to_string(idx)); }
}
}  // namespace

int main(int argc, char** argv) {
  verif::Config cfg{"C13", "containers",
                    "2-3 worker programs of 1-6 unite/find/same calls over 2-8 elements (DisjointSets) or 1-6 Insert calls with colliding and duplicate keys, identity hash, step 1 or 3, tables of 4-16 slots incl. runs that fill the table (HashTable); every atomic access is a yield point (MANIFOLD_VERIF hook) and a generated tape picks the worker that continues; oracle: final partition equals the sequential union of the same pairs, every representative lies in its class, same()==true is never wrong; every inserted key occupies exactly one slot and maps to a value some thread inserted unless Full(); exhaustive sub-check: 8 fixed configurations, all schedules with at most 2 (thorough 3) preemptions; non-trivial = >=2 context switches and a preemption directly before a CAS; distinct = tape hash / schedule text",
                    30};
  return verif::run_main(argc, argv, cfg, Body, Enumerate);
}
