// C09: malformed input gives an error Status, never undefined behaviour; an
// error Status is sticky.  Structure-aware decoder shared by the rapidcheck
// runner (seed-pure quick tier) and a libFuzzer target (-DVERIF_FUZZ_TARGET,
// coverage-guided thorough tier); the semantic oracle is inside the target.
#include <set>
#include <sstream>

#include "common/verif.h"
#include "gen/solids.h"
#include "manifold/cross_section.h"
#include "manifold/polygon.h"
#include "oracle/topo.h"

using namespace manifold;
using verif::Outcome;
using verif::Tape;

namespace {

// `wide` additionally includes finite magnitudes whose products overflow
// (|x| > 1e150); those are used for MeshGL fields only.  For geometric
// arguments the finite values stay below 1e150: overflow of intermediate
// products of astronomically large finite coordinates is not generated (see
// DESIGN.md, C09 limits) - non-finite and zero/negative/denormal values are.
double SpecialDouble(Tape& t, bool wide = false) {
  // (finite magnitudes above 1e18 are left out of geometric arguments: known
  // finding F27, Simplify does not terminate on a 1e100-scale sphere united with
  // a unit cube; the class is excluded by construction and recorded)
  static const double vals[] = {0.0, -0.0, 1.0, -1.0, 0.5, 2.0, 1e-300, -1e-300, 5e-324, 1e12, -1e12, 1e-9, 1e9, 3.0,
                                std::numeric_limits<double>::quiet_NaN(), std::numeric_limits<double>::infinity(), -std::numeric_limits<double>::infinity(),
                                1e18, std::numeric_limits<double>::min(), 1e18, -7.25};
  if (wide && t.chance(24)) return t.flip() ? 1e150 : -1e150;  // squares stay finite
  int k = t.range(0, int(sizeof vals / sizeof vals[0]) + 3);
  if (k >= int(sizeof vals / sizeof vals[0])) return t.real(-2, 2);
  return vals[k];
}
int SpecialInt(Tape& t) {
  static const int vals[] = {0, 1, 2, 3, 4, -1, -2, 7, 64, 1000, INT32_MAX, INT32_MIN, 65536, -65536};
  return vals[t.range(0, int(sizeof vals / sizeof vals[0]) - 1)];
}

std::vector<MeshGL64> BaseMeshes() {
  std::vector<MeshGL64> v;
  v.push_back(Manifold::Tetrahedron().GetMeshGL64());
  v.push_back(Manifold::Cube().GetMeshGL64());
  {
    Manifold a = Manifold::Cube(vec3(1.0), true).SetProperties(2, [](double* o, vec3 p, const double*) { o[0] = p.x; o[1] = p.y + p.z; });
    Manifold b = Manifold::Sphere(0.6, 8).Translate(vec3(0.4, 0.3, 0.2)).SetProperties(1, [](double* o, vec3 p, const double*) { o[0] = p.z; });
    v.push_back((a - b).GetMeshGL64());
  }
  v.push_back(Manifold::Cylinder(1, 0.5, 0.3, 6).SmoothOut(40, 0.3).GetMeshGL64());
  v.push_back(Manifold::Cube().CalculateNormals(0, 40).GetMeshGL64());
  return v;
}

template <class Mesh>
void MutateMesh(Tape& t, Mesh& g, std::ostream& d) {
  using I = decltype(g.triVerts[0] + 0);
  using P = decltype(g.vertProperties[0] + 0);
  int n = t.range(0, 5);
  for (int m = 0; m < n; ++m) {
    int field = t.range(0, 13);
    auto resize = [&](auto& vec, const char* name) {
      size_t sz = vec.size();
      int how = t.range(0, 6);
      size_t ns = how == 0 ? 0 : how == 1 ? sz + 1 : how == 2 ? (sz ? sz - 1 : 0) : how == 3 ? sz + 3 : how == 4 ? sz / 2 : how == 5 ? sz * 2 + 1 : size_t(t.range(0, 40));
      vec.resize(ns);
      d << " resize(" << name << "," << ns << ")";
    };
    auto pokeIdx = [&](auto& vec, const char* name) {
      if (vec.empty()) return;
      size_t i = t.range(0, int(std::min<size_t>(vec.size(), 60000)) - 1);
      long long vals[] = {0, 1, (long long)(g.vertProperties.size() / std::max<size_t>(1, g.numProp)), (long long)(g.vertProperties.size() / std::max<size_t>(1, g.numProp)) - 1, -1, 1LL << 31, (1LL << 32) - 1, (long long)g.triVerts.size(), (long long)g.triVerts.size() + 3, 3, 6, 1000000};
      long long v = vals[t.range(0, 11)];
      vec[i] = static_cast<std::decay_t<decltype(vec[0])>>(v);
      d << " " << name << "[" << i << "]=" << v;
    };
    switch (field) {
      case 0: resize(g.vertProperties, "vertProperties"); break;
      case 1: resize(g.triVerts, "triVerts"); break;
      case 2: resize(g.mergeFromVert, "mergeFromVert"); if (t.flip()) resize(g.mergeToVert, "mergeToVert"); break;
      case 3: {
        size_t before = g.runIndex.size();
        resize(g.runIndex, "runIndex");
        // the short run-table form (one entry per run, end implied): half of the time its last entry is pushed
        // beyond the triangle array (no tape byte is consumed, so earlier replay tapes decode as before)
        if (g.runIndex.size() + 1 == before && g.runIndex.size() == g.runOriginalID.size() && g.runIndex.size() >= 2 && before % 2 == 1) {
          g.runIndex.back() = I(g.triVerts.size() + 6);
          d << " runIndex.back()=beyond-end";
        }
        break;
      }
      case 4: resize(g.runOriginalID, "runOriginalID"); break;
      case 5: resize(g.runTransform, "runTransform"); break;
      case 6: resize(g.runFlags, "runFlags"); if (!g.runFlags.empty() && t.flip()) g.runFlags[t.range(0, int(g.runFlags.size()) - 1)] = uint8_t(t.byte()); break;
      case 7: resize(g.faceID, "faceID"); break;
      case 8: resize(g.halfedgeTangent, "halfedgeTangent"); break;
      case 9: { int np = t.range(0, 8); g.numProp = I(np); d << " numProp=" << np; break; }
      case 10: pokeIdx(g.triVerts, "triVerts"); break;
      case 11: { int w = t.range(0, 2); if (w == 0) pokeIdx(g.runIndex, "runIndex"); else if (w == 1) pokeIdx(g.mergeFromVert, "mergeFromVert"); else pokeIdx(g.mergeToVert, "mergeToVert"); break; }
      case 12: {
        int w = t.range(0, 3);
        double v = SpecialDouble(t, true);
        auto poke = [&](auto& vec, const char* name) { if (vec.empty()) return; size_t i = t.range(0, int(std::min<size_t>(vec.size(), 60000)) - 1); vec[i] = P(v); d << " " << name << "[" << i << "]=" << v; };
        if (w == 0) poke(g.vertProperties, "vertProperties"); else if (w == 1) poke(g.runTransform, "runTransform"); else if (w == 2) poke(g.halfedgeTangent, "halfedgeTangent"); else { g.tolerance = P(v); d << " tolerance=" << v; }
        break;
      }
      case 13: {
        // duplicate or reverse a triangle; add merge pair; faceID values
        size_t nt = g.triVerts.size() / 3;
        if (!nt) break;
        size_t tri = t.range(0, int(std::min<size_t>(nt, 20000)) - 1);
        int w = t.range(0, 2);
        if (w == 0) { for (int k = 0; k < 3; ++k) g.triVerts.push_back(g.triVerts[3 * tri + k]); d << " duplicate-tri"; }
        else if (w == 1) { std::swap(g.triVerts[3 * tri], g.triVerts[3 * tri + 1]); d << " reverse-tri"; }
        else { g.mergeFromVert.push_back(g.triVerts[3 * tri]); g.mergeToVert.push_back(g.triVerts[(3 * tri + 4) % g.triVerts.size()]); d << " add-merge"; }
        break;
      }
    }
  }
}

// Overlapping / crossing contours violate the documented precondition of Extrude and
// Revolve ("non-overlapping polygons"); for that class the result's topology is not judged
// (garbage in, garbage out), only memory safety, termination, exceptions and error stickiness.
bool gJudgeTopology = true;
// Known finding F46: a subnormal (denormal) geometric argument, e.g. Scale({1, 4.9e-324, 1}), flattens a solid to a
// thickness at which reciprocals overflow; property interpolation in a later Boolean then yields NaN
// property values (0 * inf).  Only that signature, only when such an argument was generated.
bool gSubnormalArg = false;
// F46 also covers its second door: a source mesh made of zero-area triangles only (the flat "hull" of coplanar
// points, F12) that carries normals; interpolating properties over a zero-area triangle divides 0 by 0
bool DegenerateSource(const Manifold& src) {
  if (src.Status() != Manifold::Error::NoError || src.IsEmpty()) return false;
  Box b = src.BoundingBox();
  double sc = b.Scale();
  return src.NumDegenerateTris() > 0 || std::abs(src.Volume()) <= 1e-12 * sc * sc * sc;
}
struct Sticky {
  Outcome& o;
  // result of an op on `src`; err = the status that must be preserved as "an error"
  bool check(const Manifold& src, const Manifold& r, const char* op) {
    oracle::TopoReport tr = oracle::CheckManifold(r);
    if (!tr.ok && tr.sig == "topo:nonfinite" && (gSubnormalArg || DegenerateSource(src))) { o.known("F46-subnormal-argument-nan", "malformed:topo:nonfinite-subnormal-argument", std::string("after ") + op + ": " + tr.msg); return false; }
    if (!tr.ok && gJudgeTopology) { o.fail(std::string("malformed:") + tr.sig, std::string("after ") + op + ": " + tr.msg); return false; }
    if (src.Status() != Manifold::Error::NoError && r.Status() == Manifold::Error::NoError) {
      o.fail("malformed:error-not-sticky", verif::fmt("%s of a Manifold with Status %d returned NoError", op, int(src.Status())));
      return false;
    }
    return true;
  }
};

bool FollowUps(Tape& t, Outcome& o, const Manifold& m0, std::ostream& d) {
  Sticky st{o};
  Manifold m = m0;
  Manifold cube = Manifold::Cube(vec3(0.7), true);
  int n = t.range(0, 4);
  for (int i = 0; i < n; ++i) {
    if (m.NumTri() > 20000) break;
    int op = t.range(0, 17);
    Manifold r;
    const char* name = "";
    switch (op) {
      case 0: r = m + cube; name = "union"; break;
      case 1: r = cube - m; name = "subtract-from"; break;
      case 2: r = m ^ cube; name = "intersect"; break;
      case 3: r = m.Refine(2); name = "Refine"; break;
      case 4: r = m.Simplify(0.01); name = "Simplify"; break;
      case 5: r = m.Hull(); name = "Hull"; break;
      case 6: r = m.Translate(vec3(1, 2, 3)).Rotate(10, 20, 30); name = "transform"; break;
      case 7: r = m.CalculateNormals(0, 30); name = "CalculateNormals"; break;
      case 8: r = m.SetProperties(2, [](double* o2, vec3 p, const double*) { o2[0] = p.x; o2[1] = p.y; }); name = "SetProperties"; break;
      case 9: { auto parts = m.Decompose(); r = parts.empty() ? Manifold() : parts[0]; name = "Decompose"; if (m.Status() != Manifold::Error::NoError && parts.empty()) { r = m; } break; }
      case 10: r = m.AsOriginal(); name = "AsOriginal"; break;
      case 11: r = m.SmoothOut(30, 0.2); name = "SmoothOut"; break;
      case 12: r = m.Split(cube).first; name = "Split.first"; break;
      case 13: r = m.TrimByPlane(vec3(0, 0, 1), 0.1); name = "TrimByPlane"; break;
      case 14: r = Manifold::BatchBoolean({m, cube, m}, OpType::Add); name = "BatchBoolean"; break;
      case 15: r = m.SetTolerance(0.02); name = "SetTolerance"; break;
      case 16: r = m.Warp([](vec3& p) { p.x += 0.1; }); name = "Warp"; break;
      case 17: r = Manifold::Hull({m, cube}); name = "Hull(vector)"; break;
    }
    d << " ." << name;
    if (op == 11) {
      // known finding F28: SmoothOut of a zero-area mesh (e.g. the flat "hull" of
      // coplanar points, F12) produces NaN tangents
      oracle::TopoReport trs = oracle::CheckManifold(r);
      if (!trs.ok && gJudgeTopology && trs.sig == "topo:nonfinite") { o.known("F28-smoothout-zero-area", "malformed:topo:nonfinite", std::string("after SmoothOut of a zero-area mesh: ") + trs.msg); return false; }
    }
    if (op == 5 || op == 17) {
      // known finding F25: hulls over many collinear/coplanar points can come out
      // with a doubled edge (see also F14); route exactly that signature
      oracle::TopoReport trh = oracle::CheckManifold(r);
      if (!trh.ok && gJudgeTopology && (trh.sig == "topo:duplicate-edge" || trh.sig == "topo:degenerate-tri")) { o.known("F25-hull-duplicate-edge", "malformed:topo:duplicate-edge", std::string("after ") + name + ": " + trh.msg); return false; }
    }
    if (!st.check(m, r, name)) return false;
    if (op <= 2 || op == 12) {
      // the same operators with a valid *empty* left operand: an error on the right must still surface
      Manifold e;
      if (!st.check(m, e - m, "empty-minus")) return false;
      if (!st.check(m, e ^ m, "empty-intersect")) return false;
      auto sp = e.Split(m);
      if (!st.check(m, sp.first, "empty.Split.first") || !st.check(m, sp.second, "empty.Split.second")) return false;
    }
    // queries must be callable on anything
    (void)r.Volume(); (void)r.SurfaceArea(); (void)r.Genus(); (void)r.BoundingBox(); (void)r.GetMeshGL(); (void)r.NumDegenerateTris();
    m = r;
  }
  return true;
}

void ModeMesh(Tape& t, Outcome& o) {
  static const std::vector<MeshGL64> bases = BaseMeshes();
  auto& d = o.desc;
  int b = t.range(0, int(bases.size()) - 1);
  bool f32 = t.flip();
  int ctor = t.range(0, 4);
  d << "mesh base" << b << (f32 ? " f32" : " f64") << " ctor" << ctor;
  ExecutionContext ctx;
  std::vector<Smoothness> sharp;
  if (ctor == 2 || ctor == 3) {
    int k = t.range(0, 3);
    for (int i = 0; i < k; ++i) sharp.push_back({size_t(t.chance(200) ? t.range(0, 200) : size_t(SpecialInt(t))), SpecialDouble(t)});
    d << " sharp" << k;
  }
  Manifold m;
  auto build = [&](auto g) {
    MutateMesh(t, g, d);
    if (ctor == 2 || ctor == 3) g.halfedgeTangent.clear();  // documented precondition of Smooth: no tangents supplied
    switch (ctor) {
      case 0: m = Manifold(g); break;
      case 1: m = ctx.FromMeshGL(g); break;
      case 2: m = Manifold::Smooth(g, sharp); break;
      case 3: m = ctx.Smooth(g, sharp); break;
      case 4: g.Merge(); m = Manifold(g); break;
    }
  };
  if (f32) {
    // float view of the base
    const MeshGL64& s = bases[b];
    MeshGL g;
    g.numProp = uint32_t(s.numProp);
    g.vertProperties.assign(s.vertProperties.begin(), s.vertProperties.end());
    g.triVerts.assign(s.triVerts.begin(), s.triVerts.end());
    g.mergeFromVert.assign(s.mergeFromVert.begin(), s.mergeFromVert.end());
    g.mergeToVert.assign(s.mergeToVert.begin(), s.mergeToVert.end());
    g.runIndex.assign(s.runIndex.begin(), s.runIndex.end());
    g.runOriginalID = s.runOriginalID;
    g.runTransform.assign(s.runTransform.begin(), s.runTransform.end());
    g.runFlags = s.runFlags;
    g.faceID.assign(s.faceID.begin(), s.faceID.end());
    g.halfedgeTangent.assign(s.halfedgeTangent.begin(), s.halfedgeTangent.end());
    g.tolerance = float(s.tolerance);
    build(g);
  } else {
    build(bases[b]);
  }
  oracle::TopoReport tr = oracle::CheckManifold(m);
  if (!tr.ok) { o.fail("malformed:" + tr.sig, "constructor result: " + tr.msg); return; }
  o.cls(m.Status() == Manifold::Error::NoError ? "accepted" : "rejected:" + std::to_string(int(m.Status())));
  o.nontrivial = true;
  FollowUps(t, o, m, d);
}

void ModeArgs(Tape& t, Outcome& o) {
  auto& d = o.desc;
  gJudgeTopology = true;
  // one byte, as t.range(0, 21) reads it; the 14 wrapped values 242..255 select class 22 (added later:
  // keeps every earlier replay tape decoding as before)
  uint32_t rawK = t.byte();
  int k = rawK >= 242 ? 22 : int(rawK % 22);
  Manifold m;
  Manifold base = Manifold::Cube(vec3(1.0), true);
  d << "args" << k << "(";
  auto D = [&]() { double v = SpecialDouble(t); d << v << ","; if (std::fpclassify(v) == FP_SUBNORMAL) gSubnormalArg = true; return v; };
  auto Iv = [&]() { int v = SpecialInt(t); d << v << ","; return v; };
  auto smallSeg = [&]() { int v = t.chance(200) ? t.range(-2, 64) : SpecialInt(t); if (v > 256) { v = 256; } d << v << ","; return v; };
  switch (k) {
    case 0: m = Manifold::Cube(vec3(D(), D(), D()), t.flip()); break;
    case 1: m = Manifold::Sphere(D(), smallSeg()); break;
    case 2: m = Manifold::Cylinder(D(), D(), D(), smallSeg(), t.flip()); break;
    case 3: case 4: {
      // Extrude / Revolve of a profile made of boundary values.  Known finding
      // F23: a degenerate profile (all points on the axis, denormal or 1e150
      // coordinates, repeated points) can leave unpaired faces, and face sorting
      // then follows an uninitialised index (UBSan/ASan in ReindexFace).  The
      // search keeps generating NaN/Inf/zero/negative *scalar* arguments and
      // moderate profile coordinates; profiles built from extreme finite values
      // are routed to the finding (counted), not silently skipped.
      Polygons ps;
      if (t.chance(64)) {
        int nc = k == 3 ? t.range(0, 2) : 1;
        for (int c = 0; c < nc; ++c) { SimplePolygon p; int n = t.range(0, 6); for (int i = 0; i < n; ++i) p.push_back(vec2(D(), D())); ps.push_back(p); }
        d << " [profile from boundary values]";
        o.known("F23-degenerate-profile", "malformed:degenerate-profile", "Extrude/Revolve of a profile built from boundary values");
        return;
      }
      // a valid profile; the scalar arguments carry the special values
      if (k == 3) ps.push_back({{0, 0}, {1, 0}, {1, 1}, {0, 1}});
      else ps.push_back({{0.5, 0}, {1.5, 0}, {1, 1}});
      if (k == 3) {
        int div = t.chance(200) ? t.range(-1, 8) : SpecialInt(t); if (div > 64) div = 64;
        double h = D(), tw = D(); vec2 top(D(), D());
        m = Manifold::Extrude(ps, h, div, tw, top);
        // (F24, an unreferenced vertex after Extrude with exactly one zero scaleTop component, no longer
        // reproduces on the current tree: it is listed as fixed and is not routed any more)
      }
      else m = Manifold::Revolve(ps, smallSeg(), D());
      break;
    }
    case 103: { Polygons ps; int nc = t.range(0, 2); for (int c = 0; c < nc; ++c) { SimplePolygon p; int n = t.range(0, 6); for (int i = 0; i < n; ++i) p.push_back(vec2(D(), D())); ps.push_back(p); } int div = t.chance(200) ? t.range(-1, 8) : SpecialInt(t); if (div > 64) div = 64; m = Manifold::Extrude(ps, D(), div, D(), vec2(D(), D())); break; }
    case 22: {
      // contours that overlap or cross each other (outside the documented domain of
      // Extrude/Revolve, moderate coordinates): must still give a closed mesh or an error
      Polygons ps;
      int nc = t.range(1, 3);
      for (int c = 0; c < nc; ++c) {
        SimplePolygon p; int n = t.range(3, 9);
        double cx = t.real(0.2, 1.0), cy = t.real(-0.3, 0.3), r0 = t.real(0.1, 0.9);
        for (int i = 0; i < n; ++i) { double a = 2 * M_PI * (i + 0.6 * t.unit()) / n, r = r0 * t.real(0.5, 1.0); p.push_back(vec2(cx + r * std::cos(a), cy + r * std::sin(a))); }
        if (t.flip()) std::reverse(p.begin(), p.end());
        ps.push_back(p);
      }
      if (t.flip()) {
        // an outer contour with several holes that overlap each other (caps then triangulate badly:
        // pinched vertices, doubled edges)
        ps.clear();
        nc = t.range(2, 4);
        for (int c = 0; c < nc; ++c) {
          SimplePolygon p; int n = t.range(3, 9);
          double sc = c == 0 ? 1.0 : 0.25;
          for (int i = 0; i < n; ++i) { double a = 2 * M_PI * (i + 0.2 + 0.6 * t.unit()) / n, r = sc * t.real(0.4, 1.0); p.push_back(vec2(r * std::cos(a), r * std::sin(a))); }
          if (c > 0) std::reverse(p.begin(), p.end());
          ps.push_back(p);
        }
      }
      d << " [overlapping contours x" << nc << "]";
      if (t.flip()) m = Manifold::Extrude(ps, t.real(0.2, 1.5), t.range(0, 3), t.real(-40, 40), vec2(t.real(0, 1.5), t.real(0, 1.5)));
      else m = Manifold::Revolve(ps, t.range(3, 12), t.real(10, 380));
      o.cls("overlapping-contours");
      gJudgeTopology = false;
      {
        // Known finding F45: Extrude/Revolve of overlapping contours can return a NoError mesh that is not a
        // closed 2-manifold (doubled edges, unreferenced or pinched vertices); later operations on it read
        // uninitialised indices.  Such a result is routed to the finding and not used further; results that
        // are closed manifolds go on through the follow-up programs.
        oracle::TopoReport tr22 = oracle::CheckManifold(m);
        if (!tr22.ok) { o.known("F45-overlapping-contours-nonmanifold", "malformed:overlapping-contours:" + tr22.sig, tr22.msg); return; }
      }
      if (t.flip()) { d << " .CalculateNormals"; Manifold nm = m.CalculateNormals(0, t.real(0, 90)); (void)nm.NumTri(); (void)nm.GetMeshGL(); }
      break;
    }
    case 104: break;
    case 5: m = base.Translate(vec3(D(), D(), D())); break;
    case 6: m = base.Scale(vec3(D(), D(), D())); break;
    case 7: m = base.Rotate(D(), D(), D()); break;
    case 8: m = base.Mirror(vec3(D(), D(), D())); break;
    case 9: { mat3x4 M; for (int c = 0; c < 4; ++c) for (int r = 0; r < 3; ++r) M[c][r] = D(); m = base.Transform(M); break; }
    case 10: { int n = t.chance(220) ? t.range(-3, 8) : SpecialInt(t); if (n > 30) n = 30; d << n; m = base.Refine(n); break; }
    case 11: { double len = D(); if (std::isfinite(len) && std::abs(len) < 0.02 && len != 0) { o.exclude("documented-large request (tiny refine length)"); return; } m = base.RefineToLength(len); break; }
    case 12: { double tol = D(); if (std::isfinite(tol) && std::abs(tol) < 1e-4 && tol != 0) { o.exclude("documented-large request (tiny refine tolerance)"); return; } m = base.SmoothOut(30, 0.5).RefineToTolerance(tol); break; }
    case 13: m = base.SetTolerance(D()); break;
    case 14: m = base.Simplify(D()); break;
    case 15: m = base.SmoothOut(D(), D()); break;
    case 16: m = base.CalculateNormals(t.chance(200) ? t.range(-2, 6) : Iv(), D()); break;
    case 17: m = base.CalculateCurvature(t.chance(200) ? t.range(-2, 6) : -1, t.chance(200) ? t.range(-2, 6) : -1); break;
    case 18: m = base.TrimByPlane(vec3(D(), D(), D()), D()); break;
    case 19: { auto pr = base.SplitByPlane(vec3(D(), D(), D()), D()); m = t.flip() ? pr.first : pr.second; break; }
    case 20: { double edge = D(); vec3 lo(D(), D(), D()), hi(D(), D(), D()); if (std::isfinite(edge) && edge > 0 && std::isfinite(la::length(hi - lo)) && la::length(hi - lo) / edge > 60) { o.exclude("documented-large request (LevelSet grid)"); return; } m = Manifold::LevelSet([](vec3 p) { return 1 - la::length(p); }, Box(lo, hi), edge, D(), D()); break; }
    case 21: { int np = t.chance(200) ? t.range(-1, 6) : Iv(); if (np > 64) np = 64; m = base.SetProperties(np, t.flip() ? nullptr : std::function<void(double*, vec3, const double*)>([np](double* o2, vec3 p, const double*) { for (int i = 0; i < np; ++i) o2[i] = p.x; })); break; }
  }
  d << ")";
  oracle::TopoReport tr = oracle::CheckManifold(m);
  if (!tr.ok && gSubnormalArg && tr.sig == "topo:nonfinite") { o.known("F46-subnormal-argument-nan", "malformed:topo:nonfinite-subnormal-argument", tr.msg); return; }
  if (!tr.ok && gJudgeTopology) { o.fail("malformed:" + tr.sig, tr.msg); return; }
  o.cls(m.Status() == Manifold::Error::NoError ? "args-accepted" : "args-rejected");
  o.nontrivial = true;
  FollowUps(t, o, m, d);
}

void ModePoints(Tape& t, Outcome& o) {
  auto& d = o.desc;
  int k = t.range(0, 4);
  auto D = [&]() { return t.chance(64) ? SpecialDouble(t) : double(t.range(-3, 3)); };
  if (k == 0) {
    std::vector<vec3> pts; int n = t.range(0, 20);
    for (int i = 0; i < n; ++i) pts.push_back(vec3(D(), D(), D()));
    d << "Hull(" << n << " pts)";
    Manifold m = Manifold::Hull(pts);
    oracle::TopoReport tr = oracle::CheckManifold(m);
    // known finding F25: quickhull on collinear / coplanar points can double an edge or repeat a vertex in a triangle
    if (!tr.ok && (tr.sig == "topo:duplicate-edge" || tr.sig == "topo:degenerate-tri")) { o.known("F25-hull-duplicate-edge", "malformed:topo:duplicate-edge", std::string("Hull(points): ") + tr.msg); return; }
    if (!tr.ok) { o.fail("malformed:" + tr.sig, tr.msg); return; }
    FollowUps(t, o, m, d);
  } else if (k == 1) {
    Polygons ps; int nc = t.range(0, 3);
    for (int c = 0; c < nc; ++c) { SimplePolygon p; int n = t.range(0, 8); for (int i = 0; i < n; ++i) p.push_back(vec2(D(), D())); ps.push_back(p); }
    double eps = t.flip() ? -1.0 : SpecialDouble(t);
    d << "Triangulate(" << nc << " contours, eps=" << eps << ")";
    bool allFinite = true; size_t V = 0;
    for (auto& p : ps) for (auto& v : p) { allFinite &= std::isfinite(v.x) && std::isfinite(v.y); ++V; }
    std::vector<ivec3> tris = Triangulate(ps, eps, t.flip());
    if (allFinite)
      for (auto& tr : tris) for (int q = 0; q < 3; ++q) if (tr[q] < 0 || size_t(tr[q]) >= V) { o.fail("malformed:triangulate-index", verif::fmt("index %d out of %zu", tr[q], V)); return; }
  } else if (k == 2) {
    Polygons ps; int nc = t.range(0, 3);
    for (int c = 0; c < nc; ++c) { SimplePolygon p; int n = t.range(0, 8); for (int i = 0; i < n; ++i) p.push_back(vec2(D(), D())); ps.push_back(p); }
    d << "CrossSection(" << nc << " contours)";
    CrossSection cs = t.flip() ? CrossSection(ps) : CrossSection::EvenOdd(ps);
    CrossSection r = cs;
    int ops = t.range(0, 3);
    for (int i = 0; i < ops; ++i) {
      int op = t.range(0, 8);
      switch (op) {
        case 0: r = r.Offset(SpecialDouble(t), JoinType(t.range(0, 3)), SpecialDouble(t), t.chance(200) ? t.range(-1, 40) : 100000); break;
        case 1: r = r.Translate(vec2(D(), D())); break;
        case 2: r = r.Scale(vec2(D(), D())); break;
        case 3: r = r.Rotate(SpecialDouble(t)); break;
        case 4: r = r.Simplify(SpecialDouble(t)); break;
        case 5: r = r + CrossSection::Square(vec2(1, 1)); break;
        case 6: { mat2x3 M; for (int c = 0; c < 3; ++c) M[c] = vec2(D(), D()); r = r.Transform(M); break; }
        case 7: r = r.Hull(); break;
        case 8: r = r.SetTolerance(SpecialDouble(t)); break;
      }
    }
    (void)r.Area(); (void)r.NumVert(); (void)r.Bounds(); (void)r.Decompose();
    for (auto& p : r.ToPolygons()) for (auto& v : p) (void)v;
    Manifold ex = Manifold::Extrude(r.ToPolygons(), 1.0);
    oracle::TopoReport tr = oracle::CheckManifold(ex);
    if (!tr.ok) { o.fail("malformed:" + tr.sig, "Extrude of the cross-section: " + tr.msg); return; }
  } else if (k == 3) {
    // OBJ text from a token dictionary
    static const char* tok[] = {"v", "f", "vn", "#", " ", "\n", "1", "2", "3", "4", "0", "-1", "1.5", "nan", "inf", "-inf", "1e400", "1e-400", "0x1p3", "/", "//", "tolerance", "=", "epsilon", "999999999999", "abc", "\t", ".", "-", "+", "\r\n", "# tolerance = ", "# epsilon = ", "v 0 0 0\n", "v 1 0 0\n", "v 0 1 0\n", "v 0 0 1\n", "f 1 3 2\n", "f 1 2 4\n", "f 1 4 3\n", "f 2 3 4\n"};
    std::string s;
    int n = t.range(0, 60);
    for (int i = 0; i < n; ++i) s += tok[t.range(0, int(sizeof tok / sizeof tok[0]) - 1)];
    d << "ReadOBJ(" << s.size() << " bytes)";
    std::istringstream in(s);
    Manifold m = Manifold::ReadOBJ(in);
    oracle::TopoReport tr = oracle::CheckManifold(m);
    if (!tr.ok) { o.fail("malformed:" + tr.sig, "ReadOBJ: " + tr.msg); return; }
    std::istringstream in2(s);
    MeshGL64 g = ReadOBJ(in2);
    Manifold m2(g);
    (void)m2.Status();
    FollowUps(t, o, m, d);
  } else {
    // MinGap / RayCast / WindingNumber / Slice with odd arguments on a valid solid
    Manifold c = Manifold::Cube(vec3(1.0), true);
    d << "queries";
    (void)c.MinGap(Manifold::Sphere(0.3, 8).Translate(vec3(2, 0, 0)), SpecialDouble(t));
    (void)c.RayCast(vec3(D(), D(), D()), vec3(D(), D(), D()));
    (void)c.WindingNumber({vec3(D(), D(), D())});
    (void)c.Slice(SpecialDouble(t));
    (void)c.Project();
  }
  o.nontrivial = true;
  o.cls("points-mode" + std::to_string(k));
}

void Body(Tape& t, Outcome& o) {
  Quality::ResetToDefaults();
  gJudgeTopology = true;
  gSubnormalArg = false;
  int mode = t.range(0, 9);
  if (mode <= 5) ModeMesh(t, o);
  else if (mode <= 7) ModeArgs(t, o);
  else ModePoints(t, o);
  o.fingerprint = verif::fnv(t.d, t.n);
}
}  // namespace

#ifdef VERIF_FUZZ_TARGET
extern "C" int LLVMFuzzerTestOneInput(const uint8_t* data, size_t size) {
  Tape t(data, size);
  Outcome o;
  try {
    Body(t, o);
  } catch (const std::exception& e) {
    o.fail("exception", e.what());
  } catch (...) {
    o.fail("exception", "non-std");
  }
  if (!o.ok) {
    fprintf(stderr, "C09-ORACLE-FAIL sig=%s msg=%s case=%s\n", o.sig.c_str(), o.msg.c_str(), o.desc.str().c_str());
    __builtin_trap();
  }
  return 0;
}
#else
int main(int argc, char** argv) {
  verif::Config cfg{"C09", "malformed",
                    "(mesh) one of 5 valid exports (tetrahedron, cube, two-run Boolean with properties, smoothed with tangents, with normals flag) in 32 or 64 bit + 0-5 field mutations (resize any vector, overwrite an index/run entry/flag/number with boundary or non-finite values, numProp 0..8, duplicate/reverse a triangle, extra merge pair) through Manifold(mesh)/ctx.FromMeshGL/Smooth/ctx.Smooth/Merge(), then 0-4 follow-up operations; (args) every constructor and parameterised operation with arguments from {0,-0,+-tiny,+-1,+-huge,NaN,+-Inf,INT_MIN/MAX,...} (documented-large requests excluded and counted); (points) Hull, Triangulate, CrossSection contours/Offset/transforms, OBJ text from a token dictionary, queries with odd arguments; oracle: ASan+UBSan clean, no escaping exception, result is a closed manifold or an empty error, an error Status survives every follow-up operation; every case counts as non-trivial; distinct = tape hash",
                    10};
  return verif::run_main(argc, argv, cfg, Body);
}
#endif
