// C11: CrossSections are regularized; construction fills positive / odd
// winding; 2D Booleans compute the set formula; lattice rectangles equal the
// pixel model exactly (Area == pixel count), independent of operand order.
#include <set>

#include "common/verif.h"
#include "gen/solids.h"
#include "manifold/cross_section.h"
#include "oracle/geom2.h"

using namespace manifold;
using verif::Outcome;
using verif::Tape;

namespace {

struct Samples {
  std::vector<vec2> pts;
  void uniform(Tape& t, vec2 lo, vec2 hi, int n) {
    vec2 e = hi - lo;
    for (int i = 0; i < n; ++i) pts.push_back(vec2(lo.x - 0.05 * e.x + 1.1 * e.x * t.unit(), lo.y - 0.05 * e.y + 1.1 * e.y * t.unit()));
  }
  void nearEdges(const Polygons& ps, double scale, int maxEdges) {
    size_t total = 0;
    for (auto& c : ps) total += c.size();
    if (!total) return;
    size_t stride = std::max<size_t>(1, total / maxEdges), k = 0;
    for (auto& c : ps)
      for (size_t i = 0; i < c.size(); ++i, ++k) {
        if (k % stride) continue;
        vec2 a = c[i], b = c[(i + 1) % c.size()];
        vec2 d = b - a;
        double l = std::sqrt(d.x * d.x + d.y * d.y);
        if (!(l > 0)) continue;
        vec2 n(-d.y / l, d.x / l), m = (a + b) * 0.5, nearA = a * 0.97 + b * 0.03;
        for (double off : {1e-6, 1e-3}) {
          pts.push_back(m + n * (off * scale));
          pts.push_back(m - n * (off * scale));
          pts.push_back(nearA + n * (off * scale));
          pts.push_back(nearA - n * (off * scale));
        }
      }
  }
};

void Bounds(const Polygons& ps, vec2& lo, vec2& hi) {
  for (auto& c : ps)
    for (auto& v : c) { lo = vec2(std::min(lo.x, v.x), std::min(lo.y, v.y)); hi = vec2(std::max(hi.x, v.x), std::max(hi.y, v.y)); }
}
double ScaleOf(vec2 lo, vec2 hi) { return std::max({std::abs(lo.x), std::abs(lo.y), std::abs(hi.x), std::abs(hi.y), 1e-300}); }

// output regularity: winding 0/1 at guarded samples, no proper crossings, no
// duplicate directed edges
bool CheckRegular(const Polygons& out, const Samples& smp, double guard, double tol, Outcome& o, const char* tag) {
  std::set<std::tuple<double, double, double, double>> seen;
  std::vector<std::pair<vec2, vec2>> edges;
  for (auto& c : out) {
    if (c.size() < 3) { o.fail(std::string("cross:short-contour-") + tag, "output contour with <3 vertices"); return false; }
    for (size_t i = 0; i < c.size(); ++i) {
      vec2 a = c[i], b = c[(i + 1) % c.size()];
      if (!std::isfinite(a.x) || !std::isfinite(a.y)) { o.fail(std::string("cross:nonfinite-") + tag, ""); return false; }
      // a zero-length edge (two vertices rounded onto one point, e.g. by a Transform) bounds no area: not an overlap
      if (!(a.x == b.x && a.y == b.y) && !seen.insert({a.x, a.y, b.x, b.y}).second) { o.fail(std::string("cross:duplicate-edge-") + tag, verif::fmt("directed edge (%.17g,%.17g)->(%.17g,%.17g) twice", a.x, a.y, b.x, b.y)); return false; }
      edges.push_back({a, b});
    }
  }
  if (edges.size() <= 400) {
    for (size_t i = 0; i < edges.size(); ++i)
      for (size_t j = i + 1; j < edges.size(); ++j)
        if (oracle::ProperCross(edges[i].first, edges[i].second, edges[j].first, edges[j].second, guard)) {
          o.fail(std::string("cross:self-crossing-") + tag, verif::fmt("output edges %zu and %zu cross properly", i, j));
          return false;
        }
  }
  for (auto& p : smp.pts) {
    if (oracle::EdgeDist(out, p) <= guard) continue;
    int w = oracle::Winding2(out, p);
    if (w != 0 && w != 1) { o.fail(std::string("cross:winding-") + tag, verif::fmt("output winding %d at (%.17g,%.17g)", w, p.x, p.y)); return false; }
  }
  return true;
}

Polygons GenContours(Tape& t, std::ostream& d, bool lattice, int maxContours = 5) {
  Polygons ps;
  int nc = t.range(1, maxContours);
  d << (lattice ? "lattice{" : "real{");
  for (int c = 0; c < nc; ++c) {
    int n = t.range(3, lattice ? 10 : 14);
    SimplePolygon p;
    int style = t.range(0, 3);
    if (style == 0 && !lattice) {
      std::ostringstream tmp;
      p = gen::GenStar(t, 3, 12, 0.2, 1.0, tmp);
      vec2 off(t.real(-0.7, 0.7), t.real(-0.7, 0.7));
      for (auto& v : p) v = v + off;
      if (t.flip()) std::reverse(p.begin(), p.end());
    } else {
      for (int i = 0; i < n; ++i) p.push_back(lattice ? vec2(t.range(0, 6), t.range(0, 6)) : vec2(t.real(-1, 1), t.real(-1, 1)));
    }
    d << "[";
    for (auto& v : p) d << gen::num(v.x) << " " << gen::num(v.y) << ",";
    d << "]";
    ps.push_back(p);
  }
  d << "}";
  return ps;
}

// mode 0: construction with fill rules
void ModeFill(Tape& t, Outcome& o) {
  auto& d = o.desc;
  bool lattice = t.flip();
  bool evenOdd = t.flip();
  Polygons in = GenContours(t, d, lattice);
  d << (evenOdd ? " EvenOdd" : " Positive");
  CrossSection cs = evenOdd ? CrossSection::EvenOdd(in) : CrossSection(in);
  Polygons out = cs.ToPolygons();
  vec2 lo(1e300, 1e300), hi(-1e300, -1e300);
  Bounds(in, lo, hi);
  double scale = ScaleOf(lo, hi), tol = cs.GetTolerance();
  double guard = 1e-9 * scale;  // >> epsilon (~1.4e-12*scale); deliberately not the propagated tolerance
  Samples smp;
  smp.uniform(t, lo, hi, 80);
  smp.nearEdges(in, scale, 30);
  smp.nearEdges(out, scale, 30);
  if (lattice)
    for (int x = 0; x < 6; ++x) for (int y = 0; y < 6; ++y) smp.pts.push_back(vec2(x + 0.37, y + 0.61));
  if (!CheckRegular(out, smp, guard, tol, o, "fill")) return;
  bool overlapping = false;
  long used = 0, skipped = 0;
  for (auto& p : smp.pts) {
    if (oracle::EdgeDist(in, p) <= guard) { ++skipped; continue; }
    ++used;
    int wi = oracle::Winding2(in, p);
    if (wi >= 2 || wi <= -1) overlapping = true;
    bool want = evenOdd ? (wi & 1) != 0 : wi > 0;
    int wo = oracle::Winding2(out, p);
    if ((wo == 1) != want) {
      o.fail(evenOdd ? "cross:fill-evenodd" : "cross:fill-positive", verif::fmt("point (%.17g,%.17g): input winding %d, output winding %d", p.x, p.y, wi, wo));
      return;
    }
  }
  // Area() must equal the shoelace area of ToPolygons, NumVert/NumContour must match
  size_t nv = 0;
  for (auto& c : out) nv += c.size();
  if (cs.NumVert() != nv || cs.NumContour() != out.size()) { o.fail("cross:counts", "NumVert/NumContour disagree with ToPolygons"); return; }
  if (std::abs(cs.Area() - oracle::Area(out)) > 1e-9 * scale * scale) { o.fail("cross:area", verif::fmt("Area()=%.17g, shoelace=%.17g", cs.Area(), oracle::Area(out))); return; }
  if (cs.IsEmpty() != out.empty()) { o.fail("cross:isempty", ""); return; }
  o.counters["points_used"] += used;
  o.counters["points_skipped_guard"] += skipped;
  o.nontrivial = overlapping;
  o.cls(overlapping ? "fill-overlapping-input" : "fill-simple-input");
  o.cls(lattice ? "lattice" : "real");
}

// mode 1: programs of Booleans / BatchBoolean / transforms / warps
void ModeProgram(Tape& t, Outcome& o) {
  auto& d = o.desc;
  struct V { CrossSection cs; };
  std::vector<CrossSection> pool;
  int steps = t.range(2, 7), booleans = 0;
  for (int s = 0; s < steps; ++s) {
    d << (s ? " ; " : "") << "c" << pool.size() << "=";
    int op = pool.empty() ? 0 : t.range(0, 6);
    if (op <= 1 || pool.empty()) {
      bool lattice = t.flip();
      Polygons in = GenContours(t, d, lattice, 3);
      pool.push_back(CrossSection(in));
      continue;
    }
    int ia = t.range(0, int(pool.size()) - 1), ib = t.range(0, int(pool.size()) - 1);
    CrossSection A = pool[ia], B = pool[ib];
    Polygons pa = A.ToPolygons(), pb = B.ToPolygons();
    if (op <= 4) {
      OpType ot = OpType(t.range(0, 2));
      bool batch = t.chance(64);
      int ic = t.range(0, int(pool.size()) - 1);
      Polygons pc = pool[ic].ToPolygons();
      CrossSection R = batch ? CrossSection::BatchBoolean({A, B, pool[ic]}, ot) : A.Boolean(B, ot);
      d << (batch ? "Batch" : "Bool") << int(ot) << "(c" << ia << ",c" << ib;
      if (batch) d << ",c" << ic;
      d << ")";
      ++booleans;
      Polygons pr = R.ToPolygons();
      vec2 lo(1e300, 1e300), hi(-1e300, -1e300);
      Bounds(pa, lo, hi); Bounds(pb, lo, hi);
      if (batch) Bounds(pc, lo, hi);
      if (lo.x > hi.x) { lo = vec2(0, 0); hi = vec2(1, 1); }
      double scale = ScaleOf(lo, hi), tol = std::max({R.GetTolerance(), A.GetTolerance(), B.GetTolerance()});
      double guard = 1e-9 * scale;
      Samples smp;
      smp.uniform(t, lo, hi, 50);
      smp.nearEdges(pr, scale, 24);
      smp.nearEdges(pa, scale, 12);
      smp.nearEdges(pb, scale, 12);
      if (!CheckRegular(pr, smp, guard, tol, o, "bool")) return;
      for (auto& p : smp.pts) {
        if (oracle::EdgeDist(pa, p) <= guard || oracle::EdgeDist(pb, p) <= guard) continue;
        if (batch && oracle::EdgeDist(pc, p) <= guard) continue;
        int a = oracle::Winding2(pa, p), b = oracle::Winding2(pb, p), c = batch ? oracle::Winding2(pc, p) : 0;
        if ((a != 0 && a != 1) || (b != 0 && b != 1) || (c != 0 && c != 1)) { o.fail("cross:operand-winding", "operand CrossSection has winding outside {0,1}"); return; }
        int want = ot == OpType::Add ? (a | b | c) : ot == OpType::Intersect ? (a & b & (batch ? c : 1)) : (a & !b & !c);
        int r = oracle::Winding2(pr, p);
        if (r != want) { o.fail("cross:boolean", verif::fmt("point (%.17g,%.17g): A=%d B=%d C=%d op=%d -> result winding %d, formula %d", p.x, p.y, a, b, c, int(ot), r, want)); return; }
      }
      pool.push_back(R);
    } else {
      // transform / warp: p in T(A) <=> T^-1 p in A, checked by mapping sample points forward
      int k = t.range(0, 6);
      CrossSection R;
      std::function<vec2(vec2)> fwd;
      if (k == 0) { vec2 v(t.real(-1, 1), t.real(-1, 1)); R = A.Translate(v); fwd = [v](vec2 p) { return p + v; }; d << "Translate(c" << ia << ")"; }
      else if (k == 1) { double deg = t.chance(64) ? 90.0 * t.range(0, 3) : t.real(0, 360); R = A.Rotate(deg); double r = deg * M_PI / 180; fwd = [r](vec2 p) { return vec2(p.x * std::cos(r) - p.y * std::sin(r), p.x * std::sin(r) + p.y * std::cos(r)); }; d << "Rotate(c" << ia << "," << gen::num(deg) << ")"; }
      else if (k == 2) { vec2 s(t.real(0.3, 2) * (t.chance(40) ? -1 : 1), t.real(0.3, 2)); R = A.Scale(s); fwd = [s](vec2 p) { return vec2(p.x * s.x, p.y * s.y); }; d << "Scale(c" << ia << "," << gen::num(s.x) << "," << gen::num(s.y) << ")"; }
      else if (k == 3) { vec2 ax(t.real(-1, 1), 0.2 + t.unit()); R = A.Mirror(ax); double l2 = ax.x * ax.x + ax.y * ax.y; fwd = [ax, l2](vec2 p) { double dd = 2 * (p.x * ax.x + p.y * ax.y) / l2; return vec2(p.x - dd * ax.x, p.y - dd * ax.y); }; d << "Mirror(c" << ia << ")"; }
      else if (k == 4) { mat2x3 m; m[0] = vec2(1 + t.real(-0.4, 0.4), t.real(-0.4, 0.4)); m[1] = vec2(t.real(-0.4, 0.4), 1 + t.real(-0.4, 0.4)); m[2] = vec2(t.real(-1, 1), t.real(-1, 1)); R = A.Transform(m); fwd = [m](vec2 p) { return m[0] * p.x + m[1] * p.y + m[2]; }; d << "Transform(c" << ia << ")"; }
      else if (k == 6) {
        // inflate the propagated tolerance without changing the geometry: scale up
        // by 10^e in x and straight back (lazy transforms); later Booleans must still work at epsilon
        double e = std::pow(10.0, t.range(6, 12));
        // (no Boolean at the extreme aspect ratio: epsilon is relative to the overall
        // scale, so that would legitimately merge the unscaled axis)
        CrossSection big = A.Scale(vec2(e, 1.0));
        (void)big.NumVert();  // materialise at the large scale: this is where the tolerance is propagated
        R = big.Scale(vec2(1.0 / e, 1.0));
        fwd = [](vec2 p) { return p; };
        d << "InflateTolerance(c" << ia << ",x" << gen::num(e) << ")";
      }
      else { double amp = t.real(0.005, 0.03); auto w = [amp](vec2 p) { return vec2(p.x + amp * std::sin(2 * p.y), p.y + amp * std::sin(2 * p.x + 1)); }; R = t.flip() ? A.Warp([w](vec2& p) { p = w(p); }) : A.WarpBatch([w](VecView<vec2> vs) { for (auto& p : vs) p = w(p); }); fwd = nullptr; d << "Warp(c" << ia << ")"; }
      Polygons pr = R.ToPolygons();
      vec2 lo(1e300, 1e300), hi(-1e300, -1e300);
      Bounds(pa, lo, hi);
      if (lo.x > hi.x) { lo = vec2(0, 0); hi = vec2(1, 1); }
      double scale = ScaleOf(lo, hi) * 3 + 2;
      double tol = std::max(R.GetTolerance(), A.GetTolerance());
      double guard = 1e-8 * scale;
      Samples smp;
      smp.uniform(t, lo, hi, 40);
      smp.nearEdges(pa, scale, 16);
      if (fwd) {
        for (auto& p : smp.pts) {
          if (oracle::EdgeDist(pa, p) <= guard) continue;
          vec2 q = fwd(p);
          if (oracle::EdgeDist(pr, q) <= guard) continue;
          int a = oracle::Winding2(pa, p), r = oracle::Winding2(pr, q);
          if (a != r) { o.fail("cross:transform", verif::fmt("transform kind %d: point (%.17g,%.17g) winding %d maps to (%.17g,%.17g) winding %d", k, p.x, p.y, a, q.x, q.y, r)); return; }
        }
      }
      Samples s2;
      s2.uniform(t, lo, hi, 20);
      if (!CheckRegular(pr, s2, guard * 4, tol, o, "transform")) return;
      pool.push_back(R);
    }
  }
  o.nontrivial = booleans >= 2;
  o.cls(booleans >= 2 ? "program>=2-booleans" : "program<2-booleans");
}

// mode 2/3: lattice rectangles vs pixel model (3: >1024 edges for the BVH broad phase)
void ModeRects(Tape& t, Outcome& o, bool big) {
  auto& d = o.desc;
  int G = big ? 36 : t.range(2, 8);
  int steps = big ? 1 : t.range(1, 6);
  struct Val { CrossSection cs; std::vector<char> px; };
  auto mkRect = [&](std::ostream& dd) {
    int x0 = t.range(0, G - 1), y0 = t.range(0, G - 1);
    int w = t.range(1, std::min(G - x0, big ? 3 : G)), h = t.range(1, std::min(G - y0, big ? 3 : G));
    Val v{CrossSection(Rect(vec2(x0, y0), vec2(x0 + w, y0 + h))), std::vector<char>(G * G, 0)};
    for (int x = x0; x < x0 + w; ++x) for (int y = y0; y < y0 + h; ++y) v.px[x * G + y] = 1;
    dd << "R[" << x0 << "," << y0 << ":" << x0 + w << "," << y0 + h << "]";
    return v;
  };
  auto judge = [&](const Val& v, const char* tag) {
    long cnt = 0;
    for (char c : v.px) cnt += c;
    double area = v.cs.Area();
    if (area != double(cnt)) { o.fail(std::string("cross:pixel-area-") + tag, verif::fmt("Area()=%.17g, pixel model %ld", area, cnt)); return false; }
    Polygons ps = v.cs.ToPolygons();
    for (int x = 0; x < G; ++x)
      for (int y = 0; y < G; ++y) {
        int w = oracle::Winding2(ps, vec2(x + 0.5, y + 0.5));
        if (w != v.px[x * G + y]) { o.fail(std::string("cross:pixel-") + tag, verif::fmt("pixel (%d,%d): winding %d, model %d", x, y, w, int(v.px[x * G + y]))); return false; }
      }
    return true;
  };
  std::vector<Val> pool;
  d << "G=" << G << " ";
  if (big) {
    int n = t.range(270, 330);
    std::vector<CrossSection> cs;
    Val acc{CrossSection(), std::vector<char>(G * G, 0)};
    std::ostringstream sink;
    for (int i = 0; i < n; ++i) { Val r = mkRect(sink); cs.push_back(r.cs); for (int k = 0; k < G * G; ++k) acc.px[k] |= r.px[k]; }
    d << "BatchAdd of " << n << " small rects (>1024 edges)";
    acc.cs = CrossSection::BatchBoolean(cs, OpType::Add);
    if (!judge(acc, "big")) return;
    // one compound polygons-constructor with all the contours, too
    Polygons all;
    for (auto& c : cs) for (auto& p : c.ToPolygons()) all.push_back(p);
    Val viaCtor{CrossSection(all), acc.px};
    if (!judge(viaCtor, "big-ctor")) return;
    o.cls(">1024-edges");
    o.nontrivial = true;
    return;
  }
  bool shared = false;
  for (int s = 0; s < steps + 2; ++s) {
    d << (s ? " ; " : "") << "c" << pool.size() << "=";
    if (pool.size() < 2 || t.chance(64)) { pool.push_back(mkRect(d)); continue; }
    int ia = t.range(0, int(pool.size()) - 1), ib = t.range(0, int(pool.size()) - 1);
    OpType ot = OpType(t.range(0, 2));
    d << "Bool" << int(ot) << "(c" << ia << ",c" << ib << ")";
    Val r{pool[ia].cs.Boolean(pool[ib].cs, ot), std::vector<char>(G * G)};
    for (int k = 0; k < G * G; ++k) { char a = pool[ia].px[k], b = pool[ib].px[k]; r.px[k] = ot == OpType::Add ? (a | b) : ot == OpType::Subtract ? (a & !b) : (a & b); }
    if (!judge(r, "bool")) return;
    if (ot != OpType::Subtract) {
      Val sw{pool[ib].cs.Boolean(pool[ia].cs, ot), r.px};
      if (!judge(sw, "swapped")) return;
      if (sw.cs.Area() != r.cs.Area()) { o.fail("cross:operand-order", "Area depends on operand order"); return; }
    }
    shared = true;
    pool.push_back(r);
  }
  o.nontrivial = shared;
  o.cls("rects");
}

void Body(Tape& t, Outcome& o) {
  int mode = t.range(0, 15);
  if (mode <= 5) ModeFill(t, o);
  else if (mode <= 10) ModeProgram(t, o);
  else if (mode <= 14) ModeRects(t, o, false);
  else ModeRects(t, o, true);
  o.fingerprint = verif::fnv_str(o.desc.str());
}
}  // namespace

int main(int argc, char** argv) {
  verif::Config cfg{"C11", "cross",
                    "(fill) 1-5 arbitrary contours (random real or 0..6 lattice coordinates, stars, either orientation) through the Positive and EvenOdd constructors; (program) 2-7 steps of Boolean/BatchBoolean/affine transforms/warps over such sections; (rects) lattice rectangles vs a pixel model incl. a >1024-edge batch union; oracle = own crossing-count winding at uniform + near-edge points farther than 64*tol+1e-9*scale from input edges, output regularity (winding in {0,1}, no proper crossings, no duplicate edges), exact Area==pixel count; non-trivial = overlapping/self-crossing input, >=2 Booleans, or any Boolean on rects; distinct = hash of case text",
                    16};
  return verif::run_main(argc, argv, cfg, Body);
}
