// C20: the C binding is a faithful, memory-safe image of the C++ API.
// A generated program of C API calls is mirrored call-for-call with the C++
// API on a twin pool of values.  After every call the C result is read back
// *through the C accessors only* and compared field by field with the C++
// twin (bitwise; original mesh IDs relabelled by first appearance because the
// ID counter is global).  Every C object lives either in malloc(<type>_size())
// bytes (so AddressSanitizer sees any write past the advertised size) and is
// destructed + freed, or in manifold_alloc_* storage and is deleted; each
// exactly once.  Allocations made inside C calls are tracked with the
// sanitizer malloc hooks; what is still live after every object was released
// is confirmed with LeakSanitizer and reported as a leak.  Callbacks check the
// user pointer they receive.
#include <sanitizer/allocator_interface.h>
#include <sanitizer/lsan_interface.h>

#include <cstring>
#include <functional>
#include <map>
#include <sstream>

#include "common/verif.h"
#include "gen/solids.h"
#include "manifold/cross_section.h"
#include "manifold/manifold.h"
#include "manifold/manifoldc.h"
#include "manifold/polygon.h"

using namespace manifold;
using verif::Outcome;
using verif::Tape;

namespace {

// ---------------------------------------------------------------- allocation tracking
constexpr size_t kTab = 1 << 18;
// pointers are stored XOR-masked: LeakSanitizer scans globals, and a plain copy of the
// pointer here would make every leaked block "reachable"
constexpr uintptr_t kMask = 0x5a5a5a5a5a5a5a5aull;
uintptr_t gTab[kTab];   // 0 = empty, 1 = tombstone, else pointer ^ kMask
size_t gTabSize[kTab];
int gInC = 0;         // >0 while a C API call is executing
long gTracked = 0;    // live tracked allocations
bool gOverflow = false;

inline size_t HashP(const volatile void* p) { return (size_t(p) >> 4) * 0x9E3779B97F4A7C15ull >> (64 - 18); }
void MallocHook(const volatile void* p, size_t n) {
  if (!gInC || !p) return;
  size_t h = HashP(p);
  for (size_t k = 0; k < kTab; ++k) {
    size_t i = (h + k) & (kTab - 1);
    if (gTab[i] == 0 || gTab[i] == 1) { gTab[i] = uintptr_t(p) ^ kMask; gTabSize[i] = n; ++gTracked; return; }
  }
  gOverflow = true;
}
void FreeHook(const volatile void* p) {
  if (!p || gTracked == 0) return;
  size_t h = HashP(p);
  for (size_t k = 0; k < kTab; ++k) {
    size_t i = (h + k) & (kTab - 1);
    if (gTab[i] == 0) return;
    if (gTab[i] == (uintptr_t(p) ^ kMask)) { gTab[i] = 1; --gTracked; return; }
  }
}
void ResetTracking() {
  memset((void*)gTab, 0, sizeof gTab);
  gTracked = 0;
  gOverflow = false;
}
struct InC { InC() { ++gInC; } ~InC() { --gInC; } };
#define CC(expr) ([&]() { InC g_; return (expr); }())
#define CV(expr) do { InC g_; expr; } while (0)

// ---------------------------------------------------------------- object life cycle
enum Ty { T_MAN, T_MANVEC, T_CS, T_CSVEC, T_RAYVEC, T_SP, T_POLYS, T_GL, T_GL64, T_BOX, T_RECT, T_TRI, T_CTX, T_N };
struct TypeOps { const char* name; size_t (*size)(); void* (*alloc)(); void (*destruct)(void*); void (*del)(void*); };
#define TYOPS(nm, T) {#nm, manifold_##nm##_size, []() -> void* { return manifold_alloc_##nm(); }, [](void* p) { manifold_destruct_##nm((T*)p); }, [](void* p) { manifold_delete_##nm((T*)p); }}
const TypeOps kOps[T_N] = {
    TYOPS(manifold, ManifoldManifold), TYOPS(manifold_vec, ManifoldManifoldVec), TYOPS(cross_section, ManifoldCrossSection),
    TYOPS(cross_section_vec, ManifoldCrossSectionVec), TYOPS(ray_hit_vec, ManifoldRayHitVec), TYOPS(simple_polygon, ManifoldSimplePolygon),
    TYOPS(polygons, ManifoldPolygons), TYOPS(meshgl, ManifoldMeshGL), TYOPS(meshgl64, ManifoldMeshGL64), TYOPS(box, ManifoldBox),
    TYOPS(rect, ManifoldRect), TYOPS(triangulation, ManifoldTriangulation), TYOPS(execution_context, ManifoldExecutionContext)};

struct Life { void* p; Ty ty; bool viaAlloc; };

constexpr uint64_t kMagic = 0xC0FFEE1234567ull;
struct UserCtx { uint64_t magic = kMagic; double a = 0, b = 0, c = 0; int n = 0; long calls = 0; bool bad = false; };
UserCtx* gExpectCtx = nullptr;  // the pointer every callback must receive
inline UserCtx* Chk(void* p) {
  UserCtx* u = (UserCtx*)p;
  if (p != (void*)gExpectCtx || gExpectCtx->magic != kMagic) { if (gExpectCtx) gExpectCtx->bad = true; return gExpectCtx; }
  u->calls++;
  return u;
}

struct MS { ManifoldManifold* c; Manifold x; };
struct CSS { ManifoldCrossSection* c; CrossSection x; };
struct PS { ManifoldPolygons* c; Polygons x; };

template <class T>
bool SameBits(const T* a, const T* b, size_t n) { return n == 0 || memcmp(a, b, n * sizeof(T)) == 0; }
inline bool SameD(double a, double b) { return memcmp(&a, &b, sizeof a) == 0 || (a == b); }

struct World {
  Tape& t;
  Outcome& o;
  std::ostream& d;
  std::vector<Life> live;
  std::vector<MS> ms;
  std::vector<CSS> cs;
  std::vector<PS> ps;
  long calls = 0;
  std::map<std::string, int> fnUsed;

  World(Tape& t_, Outcome& o_) : t(t_), o(o_), d(o_.desc) {}

  void use(const char* fn) { fnUsed[fn]++; ++calls; }
  bool bad() const { return !o.ok; }
  void fail(const std::string& fn, const std::string& field, const std::string& m = "") { o.fail("cbind:" + fn + ":" + field, m); }

  // storage for a new C object of type ty: exact-size malloc or manifold_alloc_*
  void* mem(Ty ty) {
    bool viaAlloc = t.chance(96);
    void* p;
    if (viaAlloc) { p = CC(kOps[ty].alloc()); }
    else { p = malloc(kOps[ty].size()); }
    live.push_back({p, ty, viaAlloc});
    return p;
  }
  // checks that a constructor returned exactly the storage it was given
  template <class R>
  R* made(const char* fn, void* m, R* ret) {
    use(fn);
    if ((void*)ret != m) fail(fn, "storage", "constructor did not return the caller-supplied storage");
    return (R*)m;
  }
  void release(void* p) {
    for (size_t i = 0; i < live.size(); ++i)
      if (live[i].p == p) {
        Life l = live[i];
        live.erase(live.begin() + i);
        if (l.viaAlloc) { CV(kOps[l.ty].del(p)); }
        else { CV(kOps[l.ty].destruct(p)); free(p); }
        return;
      }
    fail("harness", "release-unknown");
  }
  void releaseAll() {
    while (!live.empty()) {
      size_t i = t.exhausted() ? live.size() - 1 : size_t(t.range(0, int(live.size()) - 1));
      release(live[i].p);
    }
  }

  // ------------------------------------------------------------ comparisons
  template <class T, class LenF, class GetF>
  void cmpArr(const std::string& fn, const char* field, const std::vector<T>& want, LenF len, GetF get) {
    if (bad()) return;
    size_t n = CC(len());
    if (n != want.size()) { fail(fn, std::string(field) + "_length", verif::fmt("C %zu vs C++ %zu", n, want.size())); return; }
    T* buf = (T*)malloc(n * sizeof(T) + (n == 0 ? 1 : 0));
    T* r = CC(get((void*)buf));
    if (r != buf) fail(fn, std::string(field) + ":storage");
    else if (!SameBits(buf, want.data(), n)) fail(fn, field, "array contents differ");
    free(buf);
  }
  static std::vector<uint32_t> Relabel(const std::vector<uint32_t>& ids) {
    std::map<uint32_t, uint32_t> m;
    std::vector<uint32_t> out;
    for (auto id : ids) out.push_back(m.emplace(id, uint32_t(m.size())).first->second);
    return out;
  }
  void cmpGL(const std::string& fn, ManifoldMeshGL* c, const MeshGL& x, bool relabel) {
    if (bad()) return;
    use("meshgl_accessors");
    if (CC(manifold_meshgl_num_prop(c)) != x.numProp) return fail(fn, "gl.num_prop");
    if (CC(manifold_meshgl_num_vert(c)) != x.NumVert()) return fail(fn, "gl.num_vert");
    if (CC(manifold_meshgl_num_tri(c)) != x.NumTri()) return fail(fn, "gl.num_tri");
    float tol = CC(manifold_meshgl_tolerance(c));
    if (memcmp(&tol, &x.tolerance, sizeof tol) != 0) return fail(fn, "gl.tolerance");
    cmpArr(fn, "gl.vert_properties", x.vertProperties, [&] { return manifold_meshgl_vert_properties_length(c); }, [&](void* m) { return manifold_meshgl_vert_properties(m, c); });
    cmpArr(fn, "gl.tri_verts", x.triVerts, [&] { return manifold_meshgl_tri_length(c); }, [&](void* m) { return manifold_meshgl_tri_verts(m, c); });
    cmpArr(fn, "gl.merge_from", x.mergeFromVert, [&] { return manifold_meshgl_merge_length(c); }, [&](void* m) { return manifold_meshgl_merge_from_vert(m, c); });
    cmpArr(fn, "gl.merge_to", x.mergeToVert, [&] { return manifold_meshgl_merge_length(c); }, [&](void* m) { return manifold_meshgl_merge_to_vert(m, c); });
    cmpArr(fn, "gl.run_index", x.runIndex, [&] { return manifold_meshgl_run_index_length(c); }, [&](void* m) { return manifold_meshgl_run_index(m, c); });
    cmpArr(fn, "gl.run_transform", x.runTransform, [&] { return manifold_meshgl_run_transform_length(c); }, [&](void* m) { return manifold_meshgl_run_transform(m, c); });
    cmpArr(fn, "gl.face_id", x.faceID, [&] { return manifold_meshgl_face_id_length(c); }, [&](void* m) { return manifold_meshgl_face_id(m, c); });
    cmpArr(fn, "gl.tangent", x.halfedgeTangent, [&] { return manifold_meshgl_tangent_length(c); }, [&](void* m) { return manifold_meshgl_halfedge_tangent(m, c); });
    cmpArr(fn, "gl.run_flags", x.runFlags, [&] { return manifold_meshgl_run_flags_length(c); }, [&](void* m) { return manifold_meshgl_run_flags(m, c); });
    if (bad()) return;
    {  // run original IDs: equal up to the relabelling of the global counter
      size_t n = CC(manifold_meshgl_run_original_id_length(c));
      if (n != x.runOriginalID.size()) return fail(fn, "gl.run_original_id_length");
      std::vector<uint32_t> got(n);
      uint32_t* buf = (uint32_t*)malloc(n * 4 + (n == 0));
      CC(manifold_meshgl_run_original_id((void*)buf, c));
      for (size_t i = 0; i < n; ++i) got[i] = buf[i];
      free(buf);
      if (relabel ? Relabel(got) != Relabel(x.runOriginalID) : got != x.runOriginalID) return fail(fn, "gl.run_original_id");
    }
    size_t nr = CC(manifold_meshgl_num_run(c));
    if (nr != x.NumRun()) return fail(fn, "gl.num_run");
    for (size_t r = 0; r < nr; ++r) {
      if ((CC(manifold_meshgl_backside(c, r)) != 0) != x.Backside(r)) return fail(fn, "gl.backside");
      if ((CC(manifold_meshgl_has_normals(c, r)) != 0) != x.HasNormals(r)) return fail(fn, "gl.has_normals");
    }
  }
  void cmpGL64(const std::string& fn, ManifoldMeshGL64* c, const MeshGL64& x, bool relabel) {
    if (bad()) return;
    use("meshgl64_accessors");
    if (CC(manifold_meshgl64_num_prop(c)) != x.numProp) return fail(fn, "gl64.num_prop");
    if (CC(manifold_meshgl64_num_vert(c)) != x.NumVert()) return fail(fn, "gl64.num_vert");
    if (CC(manifold_meshgl64_num_tri(c)) != x.NumTri()) return fail(fn, "gl64.num_tri");
    double tol = CC(manifold_meshgl64_tolerance(c));
    if (memcmp(&tol, &x.tolerance, sizeof tol) != 0) return fail(fn, "gl64.tolerance");
    cmpArr(fn, "gl64.vert_properties", x.vertProperties, [&] { return manifold_meshgl64_vert_properties_length(c); }, [&](void* m) { return manifold_meshgl64_vert_properties(m, c); });
    cmpArr(fn, "gl64.tri_verts", x.triVerts, [&] { return manifold_meshgl64_tri_length(c); }, [&](void* m) { return manifold_meshgl64_tri_verts(m, c); });
    cmpArr(fn, "gl64.merge_from", x.mergeFromVert, [&] { return manifold_meshgl64_merge_length(c); }, [&](void* m) { return manifold_meshgl64_merge_from_vert(m, c); });
    cmpArr(fn, "gl64.merge_to", x.mergeToVert, [&] { return manifold_meshgl64_merge_length(c); }, [&](void* m) { return manifold_meshgl64_merge_to_vert(m, c); });
    cmpArr(fn, "gl64.run_index", x.runIndex, [&] { return manifold_meshgl64_run_index_length(c); }, [&](void* m) { return manifold_meshgl64_run_index(m, c); });
    cmpArr(fn, "gl64.run_transform", x.runTransform, [&] { return manifold_meshgl64_run_transform_length(c); }, [&](void* m) { return manifold_meshgl64_run_transform(m, c); });
    cmpArr(fn, "gl64.face_id", x.faceID, [&] { return manifold_meshgl64_face_id_length(c); }, [&](void* m) { return manifold_meshgl64_face_id(m, c); });
    cmpArr(fn, "gl64.tangent", x.halfedgeTangent, [&] { return manifold_meshgl64_tangent_length(c); }, [&](void* m) { return manifold_meshgl64_halfedge_tangent(m, c); });
    cmpArr(fn, "gl64.run_flags", x.runFlags, [&] { return manifold_meshgl64_run_flags_length(c); }, [&](void* m) { return manifold_meshgl64_run_flags(m, c); });
    if (bad()) return;
    {
      size_t n = CC(manifold_meshgl64_run_original_id_length(c));
      if (n != x.runOriginalID.size()) return fail(fn, "gl64.run_original_id_length");
      std::vector<uint32_t> got(n);
      uint32_t* buf = (uint32_t*)malloc(n * 4 + (n == 0));
      CC(manifold_meshgl64_run_original_id((void*)buf, c));
      for (size_t i = 0; i < n; ++i) got[i] = buf[i];
      free(buf);
      if (relabel ? Relabel(got) != Relabel(x.runOriginalID) : got != x.runOriginalID) return fail(fn, "gl64.run_original_id");
    }
    size_t nr = CC(manifold_meshgl64_num_run(c));
    if (nr != x.NumRun()) return fail(fn, "gl64.num_run");
    for (size_t r = 0; r < nr; ++r) {
      if ((CC(manifold_meshgl64_backside(c, r)) != 0) != x.Backside(r)) return fail(fn, "gl64.backside");
      if ((CC(manifold_meshgl64_has_normals(c, r)) != 0) != x.HasNormals(r)) return fail(fn, "gl64.has_normals");
    }
  }
  void cmpV3(const std::string& fn, const char* field, ManifoldVec3 a, vec3 b) {
    if (!SameD(a.x, b.x) || !SameD(a.y, b.y) || !SameD(a.z, b.z)) fail(fn, field, verif::fmt("C (%g,%g,%g) vs C++ (%g,%g,%g)", a.x, a.y, a.z, b.x, b.y, b.z));
  }
  void cmpV2(const std::string& fn, const char* field, ManifoldVec2 a, vec2 b) {
    if (!SameD(a.x, b.x) || !SameD(a.y, b.y)) fail(fn, field, verif::fmt("C (%g,%g) vs C++ (%g,%g)", a.x, a.y, b.x, b.y));
  }
  void cmpD(const std::string& fn, const char* field, double a, double b) {
    if (!SameD(a, b)) fail(fn, field, verif::fmt("C %.17g vs C++ %.17g", a, b));
  }
  template <class A, class B>
  void cmpI(const std::string& fn, const char* field, A a, B b) {
    if ((long long)a != (long long)b) fail(fn, field, verif::fmt("C %lld vs C++ %lld", (long long)a, (long long)b));
  }
  void cmpBox(const std::string& fn, ManifoldBox* c, const Box& x) {
    use("box_min/max");
    cmpV3(fn, "box.min", CC(manifold_box_min(c)), x.min);
    cmpV3(fn, "box.max", CC(manifold_box_max(c)), x.max);
  }
  void cmpRect(const std::string& fn, ManifoldRect* c, const Rect& x) {
    use("rect_min/max");
    cmpV2(fn, "rect.min", CC(manifold_rect_min(c)), x.min);
    cmpV2(fn, "rect.max", CC(manifold_rect_max(c)), x.max);
  }
  void cmpPolys(const std::string& fn, ManifoldPolygons* c, const Polygons& x) {
    if (bad()) return;
    use("polygons_accessors");
    size_t n = CC(manifold_polygons_length(c));
    if (n != x.size()) return fail(fn, "polygons.length", verif::fmt("C %zu vs C++ %zu", n, x.size()));
    for (size_t i = 0; i < n && !bad(); ++i) {
      size_t k = CC(manifold_polygons_simple_length(c, i));
      if (k != x[i].size()) return fail(fn, "polygons.simple_length");
      for (size_t j = 0; j < k && !bad(); ++j) cmpV2(fn, "polygons.point", CC(manifold_polygons_get_point(c, i, j)), x[i][j]);
      if (t.chance(40)) {
        void* m = mem(T_SP);
        ManifoldSimplePolygon* sp = made("manifold_polygons_get_simple", m, CC(manifold_polygons_get_simple(m, c, i)));
        if (CC(manifold_simple_polygon_length(sp)) != k) fail(fn, "simple_polygon.length");
        for (size_t j = 0; j < k && !bad(); ++j) cmpV2(fn, "simple_polygon.point", CC(manifold_simple_polygon_get_point(sp, j)), x[i][j]);
        release(sp);
      }
    }
  }
  static int WantErr(Manifold::Error e) {
    switch (e) {
      case Manifold::Error::NoError: return MANIFOLD_NO_ERROR;
      case Manifold::Error::NonFiniteVertex: return MANIFOLD_NON_FINITE_VERTEX;
      case Manifold::Error::NotManifold: return MANIFOLD_NOT_MANIFOLD;
      case Manifold::Error::VertexOutOfBounds: return MANIFOLD_VERTEX_INDEX_OUT_OF_BOUNDS;
      case Manifold::Error::PropertiesWrongLength: return MANIFOLD_PROPERTIES_WRONG_LENGTH;
      case Manifold::Error::MissingPositionProperties: return MANIFOLD_MISSING_POSITION_PROPERTIES;
      case Manifold::Error::MergeVectorsDifferentLengths: return MANIFOLD_MERGE_VECTORS_DIFFERENT_LENGTHS;
      case Manifold::Error::MergeIndexOutOfBounds: return MANIFOLD_MERGE_INDEX_OUT_OF_BOUNDS;
      case Manifold::Error::TransformWrongLength: return MANIFOLD_TRANSFORM_WRONG_LENGTH;
      case Manifold::Error::RunIndexWrongLength: return MANIFOLD_RUN_INDEX_WRONG_LENGTH;
      case Manifold::Error::FaceIDWrongLength: return MANIFOLD_FACE_ID_WRONG_LENGTH;
      case Manifold::Error::InvalidConstruction: return MANIFOLD_INVALID_CONSTRUCTION;
      case Manifold::Error::ResultTooLarge: return MANIFOLD_RESULT_TOO_LARGE;
      case Manifold::Error::InvalidTangents: return MANIFOLD_INVALID_TANGENTS;
      case Manifold::Error::Cancelled: return MANIFOLD_CANCELLED;
    }
    return -1;
  }
  // full comparison of a C manifold with its C++ twin, through C accessors only
  void cmpM(const std::string& fn, ManifoldManifold* c, const Manifold& x) {
    if (bad()) return;
    use("manifold_queries");
    Manifold::Error e = x.Status();
    cmpI(fn, "status", CC(manifold_status(c)), WantErr(e));
    if (e != Manifold::Error::NoError) o.cls(std::string("error-code:") + std::to_string(int(e)));
    cmpI(fn, "is_empty", CC(manifold_is_empty(c)) != 0, x.IsEmpty());
    cmpI(fn, "num_vert", CC(manifold_num_vert(c)), x.NumVert());
    cmpI(fn, "num_edge", CC(manifold_num_edge(c)), x.NumEdge());
    cmpI(fn, "num_tri", CC(manifold_num_tri(c)), x.NumTri());
    cmpI(fn, "num_prop", CC(manifold_num_prop(c)), x.NumProp());
    cmpI(fn, "num_prop_vert", CC(manifold_num_prop_vert(c)), x.NumPropVert());
    cmpI(fn, "genus", CC(manifold_genus(c)), x.Genus());
    cmpD(fn, "volume", CC(manifold_volume(c)), x.Volume());
    cmpD(fn, "surface_area", CC(manifold_surface_area(c)), x.SurfaceArea());
    cmpD(fn, "epsilon", CC(manifold_epsilon(c)), x.GetEpsilon());
    cmpD(fn, "tolerance", CC(manifold_get_tolerance(c)), x.GetTolerance());
    cmpI(fn, "original_id<0", CC(manifold_original_id(c)) < 0, x.OriginalID() < 0);
    if (bad()) return;
    {
      void* m = mem(T_BOX);
      ManifoldBox* b = made("manifold_bounding_box", m, CC(manifold_bounding_box(m, c)));
      cmpBox(fn, b, x.BoundingBox());
      release(b);
    }
    {
      void* m = mem(T_GL64);
      ManifoldMeshGL64* g = made("manifold_get_meshgl64", m, CC(manifold_get_meshgl64(m, c)));
      MeshGL64 gx = x.GetMeshGL64();
      cmpGL64(fn, g, gx, true);
      // OriginalID must be the ID of the single run when it is an original
      int oid = CC(manifold_original_id(c));
      if (!bad() && oid >= 0 && gx.runOriginalID.size() == 1) {
        uint32_t buf[1];
        CC(manifold_meshgl64_run_original_id((void*)buf, g));
        if (buf[0] != uint32_t(oid)) fail(fn, "original_id", "OriginalID differs from the run's original ID");
      }
      release(g);
    }
    if (bad()) return;
    int how = t.range(0, 7);
    if (how == 0) {
      void* m = mem(T_GL);
      ManifoldMeshGL* g = made("manifold_get_meshgl", m, CC(manifold_get_meshgl(m, c)));
      cmpGL(fn, g, x.GetMeshGL(), true);
      release(g);
    } else if (how == 1 && x.NumProp() >= 3) {
      int idx = t.range(0, int(x.NumProp()) - 3);
      void* m = mem(T_GL);
      ManifoldMeshGL* g = made("manifold_get_meshgl_w_normals", m, CC(manifold_get_meshgl_w_normals(m, c, idx)));
      cmpGL(fn + "(w_normals)", g, x.GetMeshGL(idx), true);
      release(g);
    } else if (how == 2 && x.NumProp() >= 3) {
      int idx = t.range(0, int(x.NumProp()) - 3);
      void* m = mem(T_GL64);
      ManifoldMeshGL64* g = made("manifold_get_meshgl64_w_normals", m, CC(manifold_get_meshgl64_w_normals(m, c, idx)));
      cmpGL64(fn + "(w_normals)", g, x.GetMeshGL64(idx), true);
      release(g);
    }
  }
  void cmpCS(const std::string& fn, ManifoldCrossSection* c, const CrossSection& x) {
    if (bad()) return;
    use("cross_section_queries");
    cmpD(fn, "cs.area", CC(manifold_cross_section_area(c)), x.Area());
    cmpD(fn, "cs.tolerance", CC(manifold_cross_section_get_tolerance(c)), x.GetTolerance());
    cmpI(fn, "cs.num_vert", CC(manifold_cross_section_num_vert(c)), x.NumVert());
    cmpI(fn, "cs.num_contour", CC(manifold_cross_section_num_contour(c)), x.NumContour());
    cmpI(fn, "cs.is_empty", CC(manifold_cross_section_is_empty(c)) != 0, x.IsEmpty());
    if (bad()) return;
    {
      void* m = mem(T_RECT);
      ManifoldRect* r = made("manifold_cross_section_bounds", m, CC(manifold_cross_section_bounds(m, c)));
      cmpRect(fn, r, x.Bounds());
      release(r);
    }
    {
      void* m = mem(T_POLYS);
      ManifoldPolygons* p = made("manifold_cross_section_to_polygons", m, CC(manifold_cross_section_to_polygons(m, c)));
      cmpPolys(fn, p, x.ToPolygons());
      release(p);
    }
  }

  // ------------------------------------------------------------ value pools
  int pushM(const std::string& fn, ManifoldManifold* c, const Manifold& x) {
    ms.push_back({c, x});
    d << " -> m" << ms.size() - 1 << " ; ";
    cmpM(fn, c, ms.back().x);
    return int(ms.size()) - 1;
  }
  int pushCS(const std::string& fn, ManifoldCrossSection* c, const CrossSection& x) {
    cs.push_back({c, x});
    d << " -> c" << cs.size() - 1 << " ; ";
    cmpCS(fn, c, cs.back().x);
    return int(cs.size()) - 1;
  }
  int pushP(const std::string& fn, ManifoldPolygons* c, const Polygons& x) {
    ps.push_back({c, x});
    d << " -> p" << ps.size() - 1 << " ; ";
    cmpPolys(fn, c, ps.back().x);
    return int(ps.size()) - 1;
  }
  MS& pickM() { int i = t.range(0, int(ms.size()) - 1); d << "m" << i; return ms[i]; }
  CSS& pickCS() { int i = t.range(0, int(cs.size()) - 1); d << "c" << i; return cs[i]; }
  PS& pickP() { int i = t.range(0, int(ps.size()) - 1); d << "p" << i; return ps[i]; }
  double A(double lo = -2, double hi = 2) {
    int k = t.range(0, 15);
    double v = k == 0 ? 0.0 : k == 1 ? double(t.range(-3, 3)) : t.real(lo, hi);
    d << gen::num(v);
    return v;
  }
  double P(double lo = 0.3, double hi = 2) { double v = t.real(lo, hi); d << gen::num(v); return v; }

  void stepSolid();
  void stepSolid2();
  void stepMesh();
  void stepCross();
  void stepBoxRect();
  void stepMisc();
};
}  // namespace

#include "c20_steps.inc"
