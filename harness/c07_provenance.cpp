// C07: every output triangle traces back to its source face and interpolated
// properties.  Originals are MeshGL64 built here (reserved IDs, 0-3 property
// channels, face IDs none / per triangle / per planar face, affine or
// per-vertex property fields); programs place 1-3 instances of 1-3 originals
// under generated transforms (incl. mirrors), combine them with Booleans and
// optionally Refine.  The export is judged run by run and triangle by
// triangle against the *input* meshes.
#include <map>
#include <set>

#include "common/verif.h"
#include "gen/solids.h"
#include "oracle/wind3.h"

using namespace manifold;
using oracle::V3;
using verif::Outcome;
using verif::Tape;

namespace {

struct Original {
  MeshGL64 mesh;
  uint32_t id;
  int channels;          // property channels beyond position
  int faceMode;          // 0 none, 1 per triangle, 2 per planar face
  bool affine;           // channel c = a_c . p + b_c ; else arbitrary per-vertex values (needs faceMode 1)
  std::vector<std::array<double, 4>> coef;  // affine coefficients per channel
};

struct Instance {
  int orig;
  mat3x4 T;
  Manifold m;
};

mat3x4 Mul(const mat3x4& a, const mat3x4& b) { return mat3x4(mat3(a) * mat3(b), mat3(a) * b[3] + a[3]); }

Original GenOriginal(Tape& t, std::ostream& d, int idx) {
  Original o;
  int shape = t.range(0, 3);
  Manifold base = shape == 0 ? Manifold::Cube(vec3(1.0), true) : shape == 1 ? Manifold::Tetrahedron() : shape == 2 ? Manifold::Cube(vec3(1.2, 0.8, 1.0), true).Refine(2) : Manifold::Cylinder(1.0, 0.6, 0.6, 6, true);
  MeshGL64 g = base.GetMeshGL64();
  o.channels = t.range(0, 3);
  o.faceMode = t.range(0, 2);
  o.affine = o.channels == 0 || t.chance(170) || o.faceMode != 1;
  o.id = Manifold::ReserveIDs(1);
  MeshGL64 m;
  m.numProp = 3 + o.channels;
  size_t nv = g.NumVert();
  for (int c = 0; c < o.channels; ++c) o.coef.push_back({t.real(-2, 2), t.real(-2, 2), t.real(-2, 2), t.real(-1, 1)});
  for (size_t v = 0; v < nv; ++v) {
    vec3 p(g.vertProperties[3 * v], g.vertProperties[3 * v + 1], g.vertProperties[3 * v + 2]);
    m.vertProperties.push_back(p.x); m.vertProperties.push_back(p.y); m.vertProperties.push_back(p.z);
    for (int c = 0; c < o.channels; ++c)
      m.vertProperties.push_back(o.affine ? o.coef[c][0] * p.x + o.coef[c][1] * p.y + o.coef[c][2] * p.z + o.coef[c][3] : t.real(-3, 3));
  }
  m.triVerts = g.triVerts;
  if (!o.affine && o.channels > 0) {
    // property seams that end at a vertex: a few triangle corners get a property vertex of their own (same
    // position, other channel values, tied to the shared vertex by the merge vectors), so the two edges of
    // that triangle at that corner are discontinuous at this end and continuous at the other
    int ns = t.range(0, 4);
    size_t ntri = m.triVerts.size() / 3;
    for (int sidx = 0; sidx < ns; ++sidx) {
      size_t tri = size_t(t.range(0, int(ntri) - 1)), k = size_t(t.range(0, 2));
      size_t old = m.triVerts[3 * tri + k];
      if (old >= nv) continue;  // already split
      size_t nw = m.vertProperties.size() / m.numProp;
      for (int j = 0; j < 3; ++j) m.vertProperties.push_back(m.vertProperties[m.numProp * old + j]);
      for (int c = 0; c < o.channels; ++c) m.vertProperties.push_back(t.real(-3, 3));
      m.triVerts[3 * tri + k] = nw;
      m.mergeFromVert.push_back(nw);
      m.mergeToVert.push_back(old);
    }
    if (!m.mergeFromVert.empty()) d << "[seams:" << m.mergeFromVert.size() << "] ";
  }
  m.runOriginalID = {o.id};
  m.runIndex = {0, m.triVerts.size()};
  size_t nt = m.triVerts.size() / 3;
  if (o.faceMode == 1) { m.faceID.resize(nt); for (size_t i = 0; i < nt; ++i) m.faceID[i] = 100 + i; }
  else if (o.faceMode == 2) {
    // planar groups by plane (normal + offset), computed here
    m.faceID.resize(nt);
    std::vector<std::array<double, 4>> planes;
    for (size_t i = 0; i < nt; ++i) {
      vec3 a(m.vertProperties[m.numProp * m.triVerts[3 * i]], m.vertProperties[m.numProp * m.triVerts[3 * i] + 1], m.vertProperties[m.numProp * m.triVerts[3 * i] + 2]);
      vec3 b(m.vertProperties[m.numProp * m.triVerts[3 * i + 1]], m.vertProperties[m.numProp * m.triVerts[3 * i + 1] + 1], m.vertProperties[m.numProp * m.triVerts[3 * i + 1] + 2]);
      vec3 c(m.vertProperties[m.numProp * m.triVerts[3 * i + 2]], m.vertProperties[m.numProp * m.triVerts[3 * i + 2] + 1], m.vertProperties[m.numProp * m.triVerts[3 * i + 2] + 2]);
      vec3 n = la::normalize(la::cross(b - a, c - a));
      double off = la::dot(n, a);
      size_t k = 0;
      for (; k < planes.size(); ++k) if (std::abs(planes[k][0] - n.x) + std::abs(planes[k][1] - n.y) + std::abs(planes[k][2] - n.z) + std::abs(planes[k][3] - off) < 1e-9) break;
      if (k == planes.size()) planes.push_back({n.x, n.y, n.z, off});
      m.faceID[i] = 7 + 3 * k;
    }
  }
  o.mesh = m;
  d << "O" << idx << "(shape" << shape << ",ch" << o.channels << ",face" << o.faceMode << (o.affine ? ",affine" : ",pervertex") << ",id" << o.id << ") ";
  return o;
}

// `salt` keeps instances in general position even for an all-zero tape (two
// instances never get identical or axis-aligned-coincident transforms)
mat3x4 GenT(Tape& t, std::ostream& d, int salt = 0) {
  vec3 ang(11.3 + 37.1 * salt + t.real(0, 360), 23.9 + 53.7 * salt + t.real(0, 360), 41.7 + 71.3 * salt + t.real(0, 360));
  vec3 tr(0.0137 + 0.113 * salt + t.real(-0.5, 0.5), 0.0291 - 0.071 * salt + t.real(-0.5, 0.5), 0.0173 + 0.057 * salt + t.real(-0.5, 0.5));
  vec3 sc(t.real(0.7, 1.4));
  if (t.chance(64)) sc = vec3(t.real(0.7, 1.4), t.real(0.7, 1.4), t.real(0.7, 1.4));
  bool mirror = t.chance(80);
  auto rx = [](double q) { double c = std::cos(q), s = std::sin(q); return mat3(vec3(1, 0, 0), vec3(0, c, s), vec3(0, -s, c)); };
  auto ry = [](double q) { double c = std::cos(q), s = std::sin(q); return mat3(vec3(c, 0, -s), vec3(0, 1, 0), vec3(s, 0, c)); };
  auto rz = [](double q) { double c = std::cos(q), s = std::sin(q); return mat3(vec3(c, s, 0), vec3(-s, c, 0), vec3(0, 0, 1)); };
  mat3 S(vec3(sc.x * (mirror ? -1 : 1), 0, 0), vec3(0, sc.y, 0), vec3(0, 0, sc.z));
  mat3 R = rz(ang.z * M_PI / 180) * ry(ang.y * M_PI / 180) * rx(ang.x * M_PI / 180) * S;
  d << "T(" << (mirror ? "mirror," : "") << "rot,scale,tr) ";
  return mat3x4(R, tr);
}

double TriDist(const Original& o, const std::vector<size_t>& tris, const V3& q, size_t* best = nullptr) {
  double bd = 1e300;
  const MeshGL64& m = o.mesh;
  for (size_t ti : tris) {
    V3 v[3];
    for (int k = 0; k < 3; ++k) { size_t vi = m.triVerts[3 * ti + k]; v[k] = V3(m.vertProperties[m.numProp * vi], m.vertProperties[m.numProp * vi + 1], m.vertProperties[m.numProp * vi + 2]); }
    double dd = oracle::PointTriDist2(q, v[0], v[1], v[2]);
    if (dd < bd) { bd = dd; if (best) *best = ti; }
  }
  return std::sqrt(bd);
}

void Body(Tape& t, Outcome& o) {
  auto& d = o.desc;
  int no = t.range(1, 3);
  std::vector<Original> origs;
  for (int i = 0; i < no; ++i) origs.push_back(GenOriginal(t, d, i));
  int ni = t.range(2, 4);
  bool farApart = t.chance(90);
  if (farApart) d << "[far apart] ";
  std::vector<Instance> inst;
  for (int i = 0; i < ni; ++i) {
    Instance in;
    in.orig = t.range(0, no - 1);
    d << "I" << i << "=O" << in.orig << ".";
    in.T = GenT(t, d, i);
    Manifold base(origs[in.orig].mesh);
    if (base.Status() != Manifold::Error::NoError) { o.fail("prov:import", verif::fmt("import of a valid original failed with Status %d", int(base.Status()))); return; }
    // sometimes as a chain of two transforms (their product is the instance transform)
    // sometimes as a chain of two transforms (their product is the instance transform), with the
    // first one sometimes realised (the instance evaluated) before the second is applied lazily
    if (t.chance(100)) {
      mat3x4 T2 = GenT(t, d, i + 5);
      Manifold first = base.Transform(in.T);
      if (t.flip()) { (void)first.NumTri(); (void)first.GetMeshGL64(); d << "[evaluated between] "; }
      in.m = first.Transform(T2);
      in.T = Mul(T2, in.T);
    }
    else in.m = base.Transform(in.T);
    // some cases keep the instances far apart: bounding-box-disjoint operands take the Compose path
    if (farApart) { mat3x4 sh(mat3(la::identity), vec3(4.0 * i, 0.37 * i, -0.21 * i)); in.m = in.m.Transform(sh); in.T = Mul(sh, in.T); }
    inst.push_back(in);
  }
  Manifold r = inst[0].m;
  d << "; R=I0";
  for (int i = 1; i < ni; ++i) {
    int op = t.range(0, 2);
    d << (op == 0 ? "+" : op == 1 ? "-" : "^") << "I" << i;
    r = r.Boolean(inst[i].m, OpType(op));
  }
  int refine = t.chance(100) ? t.range(2, 3) : 0;
  if (refine) { r = r.Refine(refine); d << " .Refine(" << refine << ")"; }
  if (r.Status() != Manifold::Error::NoError) { o.fail("prov:status", verif::fmt("Status %d", int(r.Status()))); return; }
  MeshGL64 g = r.GetMeshGL64();
  const size_t nt = g.NumTri();
  double tol = r.GetTolerance();
  // ---- run table ----
  if (g.runIndex.size() != g.runOriginalID.size() + 1) { o.fail("prov:run-table", "runIndex is not one longer than runOriginalID"); return; }
  if (!g.runIndex.empty() && (g.runIndex.front() != 0 || g.runIndex.back() != 3 * nt)) { o.fail("prov:run-table", "runs do not cover all triangles"); return; }
  for (size_t i = 0; i + 1 < g.runIndex.size(); ++i)
    if (g.runIndex[i] > g.runIndex[i + 1] || g.runIndex[i] % 3 != 0) { o.fail("prov:run-table", "runIndex not non-decreasing multiples of 3"); return; }
  if (!g.runTransform.empty() && g.runTransform.size() != 12 * g.runOriginalID.size()) { o.fail("prov:run-table", "runTransform length"); return; }
  {
    // sorted by original ID; empty runs trail
    bool sawEmpty = false;
    uint32_t lastId = 0;
    for (size_t i = 0; i < g.runOriginalID.size(); ++i) {
      bool empty = g.runIndex[i] == g.runIndex[i + 1];
      if (!empty && sawEmpty) { o.fail("prov:run-order", "a non-empty run follows an empty one"); return; }
      if (!empty) { if (g.runOriginalID[i] < lastId) { o.fail("prov:run-order", "runs are not sorted by original ID"); return; } lastId = g.runOriginalID[i]; }
      sawEmpty |= empty;
    }
  }
  std::map<uint32_t, int> id2orig;
  for (int i = 0; i < no; ++i) id2orig[origs[i].id] = i;
  // ---- every run is one of the generated instances ----
  std::vector<char> instUsed(ni, 0);
  long checkedCorners = 0, intersectionCorners = 0;
  std::set<std::array<double, 3>> inputVerts;
  for (auto& in : inst) {
    const MeshGL64& m = origs[in.orig].mesh;
    for (size_t v = 0; v < m.NumVert(); ++v) { vec3 p = in.T * vec4(m.vertProperties[m.numProp * v], m.vertProperties[m.numProp * v + 1], m.vertProperties[m.numProp * v + 2], 1.0); inputVerts.insert({std::round(p.x * 1e9), std::round(p.y * 1e9), std::round(p.z * 1e9)}); }
  }
  for (size_t run = 0; run < g.runOriginalID.size(); ++run) {
    auto it = id2orig.find(g.runOriginalID[run]);
    if (it == id2orig.end()) { o.fail("prov:unknown-original", verif::fmt("run %zu names original ID %u which no input carries", run, g.runOriginalID[run])); return; }
    const Original& og = origs[it->second];
    mat3x4 T = g.GetRunTransform(run);
    int which = -1;
    for (int i = 0; i < ni; ++i) {
      if (inst[i].orig != it->second || instUsed[i]) continue;
      double err = 0, mag = 0;
      for (int c = 0; c < 4; ++c) for (int q = 0; q < 3; ++q) { err = std::max(err, std::abs(T[c][q] - inst[i].T[c][q])); mag = std::max(mag, std::abs(inst[i].T[c][q])); }
      if (err <= 1e-11 * (1 + mag)) { which = i; break; }
    }
    if (which < 0) { o.fail("prov:run-transform", verif::fmt("run %zu (original %u): its transform matches none of the unused instances of that original", run, g.runOriginalID[run])); return; }
    instUsed[which] = 1;
    if (g.runIndex[run] == g.runIndex[run + 1]) continue;
    const bool back = g.Backside(run);
    mat3 A(T), Ai = la::inverse(A);
    double det = la::determinant(A);
    double lin = std::cbrt(std::abs(det));
    // source triangles by face ID
    std::map<uint64_t, std::vector<size_t>> byFace;
    std::vector<size_t> all;
    for (size_t ti = 0; ti < og.mesh.NumTri(); ++ti) { all.push_back(ti); if (!og.mesh.faceID.empty()) byFace[og.mesh.faceID[ti]].push_back(ti); }
    for (size_t tri = g.runIndex[run] / 3; tri < g.runIndex[run + 1] / 3; ++tri) {
      const std::vector<size_t>* src = &all;
      if (og.faceMode != 0) {
        auto bf = byFace.find(g.faceID[tri]);
        if (bf == byFace.end()) { o.fail("prov:face-id", verif::fmt("triangle %zu carries face ID %llu which its original does not have", tri, (unsigned long long)g.faceID[tri])); return; }
        src = &bf->second;
      }
      V3 P[3], Q[3];
      for (int k = 0; k < 3; ++k) {
        size_t v = g.triVerts[3 * tri + k];
        vec3 p(g.vertProperties[g.numProp * v], g.vertProperties[g.numProp * v + 1], g.vertProperties[g.numProp * v + 2]);
        vec3 q = Ai * (p - T[3]);
        P[k] = V3(p.x, p.y, p.z);
        Q[k] = V3(q.x, q.y, q.z);
      }
      // which source triangle is closest to the centroid (for the normal and per-vertex interpolation)
      V3 cen = (Q[0] + Q[1] + Q[2]) * (1.0 / 3);
      size_t srcTri = 0;
      double dcen = TriDist(og, *src, cen, &srcTri);
      if (dcen > 3 * tol / lin + 1e-9) { o.fail("prov:off-face", verif::fmt("triangle %zu (run %zu, face %llu): centroid is %.3g from its source face", tri, run, (unsigned long long)(g.faceID.empty() ? 0 : g.faceID[tri]), dcen)); return; }
      const MeshGL64& m = og.mesh;
      V3 S[3];
      for (int k = 0; k < 3; ++k) { size_t vi = m.triVerts[3 * srcTri + k]; S[k] = V3(m.vertProperties[m.numProp * vi], m.vertProperties[m.numProp * vi + 1], m.vertProperties[m.numProp * vi + 2]); }
      V3 ns = oracle::cross(S[1] - S[0], S[2] - S[0]);
      V3 nq = oracle::cross(Q[1] - Q[0], Q[2] - Q[0]);  // output triangle pulled back to the original's frame
      double area = oracle::norm(nq);
      if (area > 1e-9 * oracle::norm(ns)) {
        // pulling back through a mirroring transform flips the winding
        double sgn = oracle::dot(ns, nq) * (det < 0 ? -1 : 1) * (back ? -1 : 1);
        if (sgn <= 0) { o.fail("prov:orientation", verif::fmt("triangle %zu (run %zu, backside=%d, det %.3g) faces the wrong way relative to its source face", tri, run, int(back), det)); return; }
      }
      for (int k = 0; k < 3; ++k) {
        double dk = TriDist(og, *src, Q[k]);
        if (dk > 3 * tol / lin + 1e-9) { o.fail("prov:corner-off-face", verif::fmt("triangle %zu corner %d is %.3g from its source face (tolerance %.3g)", tri, k, dk, tol)); return; }
        ++checkedCorners;
        if (!inputVerts.count({std::round(P[k].x * 1e9), std::round(P[k].y * 1e9), std::round(P[k].z * 1e9)})) ++intersectionCorners;
        // properties
        size_t v = g.triVerts[3 * tri + k];
        int outCh = int(g.numProp) - 3;
        for (int c = 0; c < outCh; ++c) {
          double got = g.vertProperties[g.numProp * v + 3 + c], want;
          double grad = 0;
          if (c >= og.channels) want = 0;
          else if (og.affine) { want = og.coef[c][0] * Q[k].x + og.coef[c][1] * Q[k].y + og.coef[c][2] * Q[k].z + og.coef[c][3]; grad = std::abs(og.coef[c][0]) + std::abs(og.coef[c][1]) + std::abs(og.coef[c][2]); }
          else {
            // per-vertex values, per-triangle face IDs: barycentric interpolation inside the unique source triangle
            size_t st = (*src)[0];
            V3 a, b, cc; double fa, fb, fc;
            { size_t i0 = m.triVerts[3 * st], i1 = m.triVerts[3 * st + 1], i2 = m.triVerts[3 * st + 2];
              a = V3(m.vertProperties[m.numProp * i0], m.vertProperties[m.numProp * i0 + 1], m.vertProperties[m.numProp * i0 + 2]);
              b = V3(m.vertProperties[m.numProp * i1], m.vertProperties[m.numProp * i1 + 1], m.vertProperties[m.numProp * i1 + 2]);
              cc = V3(m.vertProperties[m.numProp * i2], m.vertProperties[m.numProp * i2 + 1], m.vertProperties[m.numProp * i2 + 2]);
              fa = m.vertProperties[m.numProp * i0 + 3 + c]; fb = m.vertProperties[m.numProp * i1 + 3 + c]; fc = m.vertProperties[m.numProp * i2 + 3 + c]; }
            V3 n = oracle::cross(b - a, cc - a);
            double n2 = oracle::dot(n, n);
            double wa = oracle::dot(oracle::cross(b - Q[k], cc - Q[k]), n) / n2, wb = oracle::dot(oracle::cross(cc - Q[k], a - Q[k]), n) / n2, wc = 1 - wa - wb;
            want = wa * fa + wb * fb + wc * fc;
            double h = 2 * std::sqrt(n2) / std::max({oracle::norm(b - a), oracle::norm(cc - b), oracle::norm(a - cc)});
            grad = (std::abs(fa) + std::abs(fb) + std::abs(fc)) / std::max(h, 1e-12);
          }
          double bound = grad * (3 * tol / lin + 1e-9) + 1e-9 * (1 + std::abs(want));
          if (std::abs(got - want) > bound) {
            // diagnose: does the value belong to another instance's field?
            std::string other;
            if (getenv("VERIF_DEBUG") && og.affine && c < og.channels) {
              double fw = og.coef[c][0] * P[k].x + og.coef[c][1] * P[k].y + og.coef[c][2] * P[k].z + og.coef[c][3];
              fprintf(stderr, "DEBUG world-field %.9g; run %zu of %zu, which=%d, back=%d det=%.4g; Q=(%.6g,%.6g,%.6g) P=(%.6g,%.6g,%.6g) srcDist=%.3g\n", fw, run, g.runOriginalID.size(), which, int(back), det, Q[k].x, Q[k].y, Q[k].z, P[k].x, P[k].y, P[k].z, dk);
              for (int c2 = 0; c2 < og.channels; ++c2) fprintf(stderr, "DEBUG coef %d: %.6g %.6g %.6g %.6g\n", c2, og.coef[c2][0], og.coef[c2][1], og.coef[c2][2], og.coef[c2][3]);
              for (int j = 0; j < ni; ++j) { mat3 Bi = la::inverse(mat3(inst[j].T)); vec3 qq = Bi * (vec3(P[k].x, P[k].y, P[k].z) - inst[j].T[3]); fprintf(stderr, "DEBUG in instance %d frame: (%.6g,%.6g,%.6g)\n", j, qq.x, qq.y, qq.z); }
              for (int c2 = 0; c2 < og.channels; ++c2) fprintf(stderr, "DEBUG channel %d field at Q %.9g, exported %.9g\n", c2, og.coef[c2][0] * Q[k].x + og.coef[c2][1] * Q[k].y + og.coef[c2][2] * Q[k].z + og.coef[c2][3], g.vertProperties[g.numProp * v + 3 + c2]);
            }
            if (og.affine && c < og.channels)
              for (int j = 0; j < ni; ++j) {
                if (inst[j].orig != it->second) continue;
                mat3 Bi = la::inverse(mat3(inst[j].T));
                vec3 qq = Bi * (vec3(P[k].x, P[k].y, P[k].z) - inst[j].T[3]);
                double f = og.coef[c][0] * qq.x + og.coef[c][1] * qq.y + og.coef[c][2] * qq.z + og.coef[c][3];
                if (std::abs(f - got) < 1e-6) other = verif::fmt(" (it equals the field of instance %d; this run is instance %d)", j, which);
              }
            o.fail("prov:property", verif::fmt("triangle %zu corner %d channel %d: value %.12g, source field gives %.12g (bound %.3g)%s", tri, k, c, got, want, bound, other.c_str()));
            return;
          }
        }
      }
    }
  }
  // (an instance that contributes no triangle may be dropped altogether by an
  // intermediate evaluation, so a missing run is not a violation; only the runs
  // that are present must be genuine)
  std::set<int> usedOrig;
  for (auto& in : inst) usedOrig.insert(in.orig);
  bool repeated = usedOrig.size() < size_t(ni);
  o.counters["corners_checked"] += checkedCorners;
  o.nontrivial = g.runOriginalID.size() >= 2 && intersectionCorners > 0;
  if (repeated) o.cls("repeated-instance");
  for (size_t run = 0; run < g.runFlags.size(); ++run) if (g.Backside(run)) { o.cls("backside-run"); break; }
  if (refine) o.cls("refined");
  bool mixed = false;
  for (auto& og : origs) mixed |= og.channels != origs[0].channels;
  if (mixed) o.cls("mixed-numProp");
  o.fingerprint = verif::fnv(t.d, t.n);
}
}  // namespace

int main(int argc, char** argv) {
  verif::Config cfg{"C07", "provenance",
                    "1-3 originals built in the harness (cube, tetrahedron, refined box, hexagonal prism; reserved IDs; 0-3 channels; face IDs none / per triangle / per planar face; fields affine in position or arbitrary per vertex with per-triangle face IDs), 2-4 instances under generated transforms (rotation, non-uniform scale, mirror, chains), combined left to right by Booleans, optional Refine(2-3); oracle on the exported result: run table well-formed, sorted, empty runs trailing; each run's ID is an input original and its transform is the generated one of an unused instance (1e-11 relative); every triangle's pulled-back corners lie within 3*tol of the source face selected by its face ID, normal agrees in sign (negated for back-side runs, mirrored transforms accounted for), each property equals the source field at the pulled-back position (affine or barycentric) within gradient*3*tol, zero for channels the source lacks; non-trivial = >=2 runs and a corner that is no input vertex; distinct = tape",
                    14};
  return verif::run_main(argc, argv, cfg, Body);
}
