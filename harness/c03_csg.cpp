// C03: a CSG expression denotes one solid however it is built, shared or
// evaluated.  One generated DAG is executed five ways (eager, root-only lazy,
// generated forcing history, algebraically rewritten, shared-subexpression
// first); all must agree with each other and with the set formula evaluated
// from the leaves with an independent winding number.
#include <memory>

#include "common/verif.h"
#include "gen/solids.h"
#include "oracle/wind3.h"

using namespace manifold;
using oracle::Soup;
using oracle::V3;
using verif::Outcome;
using verif::Tape;

namespace {

struct Node {
  enum Kind { Leaf, Bin, Batch, Xf, Ref } kind = Leaf;
  OpType op = OpType::Add;
  std::vector<int> kids;  // indices into the node table
  mat3x4 M = la::identity;
  double uscale = 1;      // uniform scale factor of M (for guards)
  int leaf = -1;          // leaf index
  bool force = false;     // forcing history flag
  int forceHow = 0;
};

struct Dag {
  std::vector<Node> n;
  std::vector<Manifold> leaves;
  std::vector<Soup> leafSoup;
  std::vector<double> leafTol;
  int root = -1;
  int shared = 0, subChain = 0, disjoint = 0, batches = 0, xfChain = 0;
};

mat3x4 Mul(const mat3x4& a, const mat3x4& b) { return mat3x4(mat3(a) * mat3(b), mat3(a) * b[3] + a[3]); }

mat3x4 GenRigid(Tape& t, double& us, std::ostream& d) {
  double ax = t.real(0, 360), ay = t.real(0, 360), az = t.real(0, 360);
  us = t.chance(96) ? t.real(0.7, 1.3) : 1.0;
  bool mirror = t.chance(40);
  vec3 tr(t.real(-0.7, 0.7), t.real(-0.7, 0.7), t.real(-0.7, 0.7));
  auto rx = [](double q) { double c = std::cos(q), s = std::sin(q); return mat3(vec3(1, 0, 0), vec3(0, c, s), vec3(0, -s, c)); };
  auto ry = [](double q) { double c = std::cos(q), s = std::sin(q); return mat3(vec3(c, 0, -s), vec3(0, 1, 0), vec3(s, 0, c)); };
  auto rz = [](double q) { double c = std::cos(q), s = std::sin(q); return mat3(vec3(c, s, 0), vec3(-s, c, 0), vec3(0, 0, 1)); };
  mat3 R = rz(az * M_PI / 180) * ry(ay * M_PI / 180) * rx(ax * M_PI / 180) * us;
  if (mirror) R = R * mat3(vec3(-1, 0, 0), vec3(0, 1, 0), vec3(0, 0, 1));
  d << "T(" << gen::num(ax) << "," << gen::num(ay) << "," << gen::num(az) << ",s" << gen::num(us) << (mirror ? ",mirror" : "") << ")";
  return mat3x4(R, tr);
}

int GenExpr(Tape& t, Dag& g, int depth, std::ostream& d, int& budget) {
  int kind = (depth <= 0 || budget <= 1) ? 0 : t.range(0, 9);
  Node nd;
  if (kind <= 1) {
    --budget;
    nd.kind = Node::Leaf;
    nd.leaf = int(g.leaves.size());
    d << "L" << nd.leaf << "[";
    Manifold p = gen::GenPrimitive(t, d, 4);
    Manifold m = gen::GenPose(t, p, nd.leaf, d, 0.5);
    d << "]";
    g.leaves.push_back(m);
  } else if (kind <= 4) {
    nd.kind = Node::Bin;
    nd.op = OpType(t.range(0, 2));
    d << "(";
    int a = GenExpr(t, g, depth - 1, d, budget);
    d << (nd.op == OpType::Add ? " + " : nd.op == OpType::Subtract ? " - " : " ^ ");
    int b = GenExpr(t, g, depth - 1, d, budget);
    d << ")";
    nd.kids = {a, b};
    if (nd.op == OpType::Subtract && g.n[a].kind == Node::Bin && g.n[a].op == OpType::Subtract) ++g.subChain;
  } else if (kind == 5) {
    nd.kind = Node::Batch;
    nd.op = OpType(t.range(0, 2));
    int k = t.range(2, 4);
    d << "Batch" << int(nd.op) << "(";
    for (int i = 0; i < k; ++i) { if (i) d << ", "; nd.kids.push_back(GenExpr(t, g, depth - 1, d, budget)); }
    d << ")";
    ++g.batches;
  } else if (kind <= 7) {
    nd.kind = Node::Xf;
    d << "X{";
    nd.M = GenRigid(t, nd.uscale, d);
    d << " ";
    int c = GenExpr(t, g, depth - 1, d, budget);
    d << "}";
    nd.kids = {c};
    if (g.n[c].kind == Node::Xf) ++g.xfChain;
  } else if (kind == 8 && !g.n.empty()) {
    // reuse an existing sub-expression under a fresh generic transform
    nd.kind = Node::Ref;
    int target = t.range(0, int(g.n.size()) - 1);
    nd.kids = {target};
    d << "Reuse#" << target << "{";
    nd.M = GenRigid(t, nd.uscale, d);
    d << "}";
    ++g.shared;
  } else {
    // union with a far-away (bounding-box-disjoint) operand: the Compose fast path
    nd.kind = Node::Bin;
    nd.op = OpType::Add;
    d << "(";
    int a = GenExpr(t, g, depth - 1, d, budget);
    Node far;
    far.kind = Node::Leaf;
    far.leaf = int(g.leaves.size());
    --budget;
    d << " + FarL" << far.leaf << "[";
    Manifold p = gen::GenPrimitive(t, d, 4);
    g.leaves.push_back(gen::GenPose(t, p, far.leaf, d, 0.2).Translate(vec3(7.0 + far.leaf, 0.31, -0.17)));
    d << "])";
    g.n.push_back(far);
    nd.kids = {a, int(g.n.size()) - 1};
    ++g.disjoint;
  }
  nd.force = t.chance(80);
  nd.forceHow = t.range(0, 2);
  g.n.push_back(nd);
  return int(g.n.size()) - 1;
}

enum Strategy { Eager, Lazy, Forcing, Rewrite, SharedFirst };

struct Evaluator {
  const Dag& g;
  Strategy st;
  std::vector<std::shared_ptr<Manifold>> memo;
  Evaluator(const Dag& g_, Strategy s) : g(g_), st(s), memo(g_.n.size()) {}

  static void Force(const Manifold& m, int how) {
    if (how == 0) (void)m.Status();
    else if (how == 1) (void)m.NumTri();
    else (void)m.GetMeshGL64();
  }

  Manifold eval(int i) {
    if (memo[i]) return *memo[i];
    const Node& nd = g.n[i];
    Manifold r;
    switch (nd.kind) {
      case Node::Leaf: r = g.leaves[nd.leaf]; break;
      case Node::Bin: {
        if (st == Rewrite && nd.op == OpType::Subtract && g.n[nd.kids[0]].kind == Node::Bin && g.n[nd.kids[0]].op == OpType::Subtract) {
          // (a - b) - c  ==  a - (b + c)
          const Node& in = g.n[nd.kids[0]];
          r = eval(in.kids[0]) - (eval(in.kids[1]) + eval(nd.kids[1]));
        } else if (st == Rewrite && nd.op != OpType::Subtract) {
          // nested same-op chain == flat batch
          std::vector<Manifold> flat;
          std::function<void(int)> collect = [&](int k) {
            const Node& c = g.n[k];
            if (c.kind == Node::Bin && c.op == nd.op) { collect(c.kids[0]); collect(c.kids[1]); }
            else flat.push_back(eval(k));
          };
          collect(i == i ? nd.kids[0] : 0);
          collect(nd.kids[1]);
          r = Manifold::BatchBoolean(flat, nd.op);
        } else {
          r = eval(nd.kids[0]).Boolean(eval(nd.kids[1]), nd.op);
        }
        break;
      }
      case Node::Batch: {
        if (st == Rewrite) {
          // flat batch == nested binary chain
          r = eval(nd.kids[0]);
          for (size_t k = 1; k < nd.kids.size(); ++k) r = r.Boolean(eval(nd.kids[k]), nd.op);
        } else {
          std::vector<Manifold> ms;
          for (int k : nd.kids) ms.push_back(eval(k));
          r = Manifold::BatchBoolean(ms, nd.op);
        }
        break;
      }
      case Node::Xf:
      case Node::Ref: {
        if (st == Rewrite && nd.kind == Node::Xf && g.n[nd.kids[0]].kind == Node::Xf) {
          // chain of transforms == one matrix product applied once
          const Node& in = g.n[nd.kids[0]];
          r = eval(in.kids[0]).Transform(Mul(nd.M, in.M));
        } else {
          r = eval(nd.kids[0]).Transform(nd.M);
        }
        break;
      }
    }
    if (st == Eager) Force(r, 1);
    if (st == Forcing && nd.force) Force(r, nd.forceHow);
    memo[i] = std::make_shared<Manifold>(r);
    return r;
  }
};

// set formula from the leaves: 1 / 0 / -1 (too close to a leaf surface)
int Formula(const Dag& g, int i, const V3& p, double guard, double scaleAcc) {
  const Node& nd = g.n[i];
  switch (nd.kind) {
    case Node::Leaf: return oracle::Classify(g.leafSoup[nd.leaf], p, guard / scaleAcc + 64 * g.leafTol[nd.leaf]) == -2 ? -1 : oracle::Classify(g.leafSoup[nd.leaf], p, guard / scaleAcc + 64 * g.leafTol[nd.leaf]);
    case Node::Xf:
    case Node::Ref: {
      mat3 A(nd.M);
      mat3 Ai = la::inverse(A);
      vec3 q = Ai * (vec3(p.x, p.y, p.z) - nd.M[3]);
      return Formula(g, nd.kids[0], V3(q.x, q.y, q.z), guard, scaleAcc * nd.uscale);
    }
    case Node::Bin:
    case Node::Batch: {
      int acc = -2;
      for (size_t k = 0; k < nd.kids.size(); ++k) {
        int c = Formula(g, nd.kids[k], p, guard, scaleAcc);
        if (c < 0) return -1;
        if (k == 0) acc = c;
        else acc = nd.op == OpType::Add ? (acc | c) : nd.op == OpType::Intersect ? (acc & c) : (acc & !c);
      }
      return acc;
    }
  }
  return -1;
}

void Body(Tape& t, Outcome& o) {
  Dag g;
  int budget = t.range(2, 7);
  g.root = GenExpr(t, g, t.range(1, 4), o.desc, budget);
  for (auto& m : g.leaves) { g.leafSoup.push_back(oracle::MakeSoup(m)); g.leafTol.push_back(m.GetTolerance()); }
  // precondition screen: leaves valid
  for (auto& s : g.leafSoup) {
    if (s.t.empty()) { o.exclude("empty leaf"); return; }
    V3 c = (s.lo + s.hi) * 0.5;
    (void)c;
  }
  const char* names[5] = {"eager", "lazy", "forcing", "rewrite", "shared-first"};
  std::vector<Manifold> res;
  for (int st = 0; st < 5; ++st) {
    Evaluator ev(g, Strategy(st));
    if (st == SharedFirst) {
      // evaluate (and force) every node that is reused, before anything else
      for (auto& nd : g.n) if (nd.kind == Node::Ref) Evaluator::Force(ev.eval(nd.kids[0]), 1);
    }
    res.push_back(ev.eval(g.root));
  }
  std::vector<Soup> soups;
  double scale = 0, tol = 0, areaLeaves = 0;
  for (auto& s : g.leafSoup) areaLeaves += oracle::Area(s);
  for (int st = 0; st < 5; ++st) {
    if (res[st].Status() != res[0].Status()) { o.fail("csg:status", verif::fmt("%s evaluation has Status %d, eager has %d", names[st], int(res[st].Status()), int(res[0].Status()))); return; }
    soups.push_back(oracle::MakeSoup(res[st]));
    scale = std::max(scale, soups.back().scale());
    tol = std::max(tol, res[st].GetTolerance());
  }
  if (res[0].Status() != Manifold::Error::NoError) { o.fail("csg:error-status", verif::fmt("valid expression evaluates to Status %d", int(res[0].Status()))); return; }
  scale = std::max(scale, 1.0);
  double v0 = oracle::Volume(soups[0]);
  double bound = 1e-8 * scale * scale * scale + 64 * tol * areaLeaves * 4;
  for (int st = 1; st < 5; ++st) {
    double v = oracle::Volume(soups[st]);
    if (std::abs(v - v0) > bound) { o.fail(std::string("csg:volume-") + names[st], verif::fmt("%s evaluation has volume %.15g, eager %.15g (bound %.3g)", names[st], v, v0, bound)); return; }
  }
  // sample points: in the box of the eager result and around the leaves
  V3 lo(1e300, 1e300, 1e300), hi(-1e300, -1e300, -1e300);
  auto grow = [&](const Soup& s) { if (s.v.empty()) return; lo = V3(std::min(lo.x, s.lo.x), std::min(lo.y, s.lo.y), std::min(lo.z, s.lo.z)); hi = V3(std::max(hi.x, s.hi.x), std::max(hi.y, s.hi.y), std::max(hi.z, s.hi.z)); };
  grow(soups[0]);
  if (lo.x > hi.x) { lo = V3(-1, -1, -1); hi = V3(1, 1, 1); }
  double guard = 64 * tol + 1e-9 * scale;
  std::vector<V3> pts;
  for (int i = 0; i < 40; ++i) pts.push_back(V3(lo.x + (hi.x - lo.x) * t.unit(), lo.y + (hi.y - lo.y) * t.unit(), lo.z + (hi.z - lo.z) * t.unit()));
  for (auto& s : {soups[0], soups[1]})
    for (size_t i = 0; i < s.t.size(); i += std::max<size_t>(1, s.t.size() / 10)) {
      V3 a = s.A(i), n = oracle::cross(s.B(i) - a, s.C(i) - a);
      double l = oracle::norm(n);
      if (!(l > 0)) continue;
      V3 c = (a + s.B(i) + s.C(i)) * (1.0 / 3);
      pts.push_back(c + n * (1e-3 * scale / l));
      pts.push_back(c - n * (1e-3 * scale / l));
    }
  long used = 0, skipped = 0;
  for (auto& p : pts) {
    int want = Formula(g, g.root, p, guard, 1.0);
    if (want < 0) { ++skipped; continue; }
    ++used;
    for (int st = 0; st < 5; ++st) {
      double w = soups[st].t.empty() ? 0.0 : oracle::Winding(soups[st], p);
      long k = std::lround(w);
      if (std::abs(w - k) > 1e-3 || k != want) { o.fail(std::string("csg:classify-") + names[st], verif::fmt("point (%.17g,%.17g,%.17g): %s evaluation has winding %.9g, the set formula over the leaves says %d", p.x, p.y, p.z, names[st], w, want)); return; }
    }
  }
  o.counters["points_used"] += used;
  o.counters["points_skipped_guard"] += skipped;
  if (g.shared) o.cls("shared-subexpression");
  if (g.subChain) o.cls("subtract-chain");
  if (g.disjoint) o.cls("disjoint-union");
  if (g.batches) o.cls("batch");
  if (g.xfChain) o.cls("transform-chain");
  o.nontrivial = (g.shared || g.subChain || g.disjoint) && used > 0;
  o.fingerprint = verif::fnv_str(o.desc.str());
}
}  // namespace

int main(int argc, char** argv) {
  verif::Config cfg{"C03", "csg",
                    "expression DAGs (2-7 leaves of posed primitives, depth<=4) over Boolean, BatchBoolean, rigid/uniform-scale/mirror transforms, reuse of an earlier sub-expression under a fresh generic transform, and unions with bounding-box-disjoint operands; each DAG evaluated eagerly, root-only, under a generated forcing history (Status/NumTri/GetMeshGL64 per node), rewritten ((a-b)-c -> a-(b+c), nested <-> batch, transform chain -> matrix product) and shared-subexpression-first; all five must have equal Status, equal volume within 64*tol*area+1e-8*scale^3, and at ~60 guarded points (uniform + 1e-3 off the result surface) the winding the set formula over the exported leaves gives; non-trivial = a shared node, a subtract chain or a disjoint union, with points judged; distinct = expression text",
                    14};
  return verif::run_main(argc, argv, cfg, Body);
}
