// C14: every spatial index reports exactly the brute-force overlap set.
//  mode 0  Collider (3D BVH): box and point queries, self-collision mode,
//          axis-aligned Transform, UpdateBoxes
//  mode 1  2D BVH (BVHBuildFromBoxes/CollidePairs)
//  mode 2  CollectIntersectionPairs: sweep path vs BVH path vs brute force with
//          the documented shared-endpoint skip rule (re-implemented here)
//  mode 3  polygon k-d tree (BuildTwoDTree/QueryTwoDTree)
// plus an exhaustive enumeration over a 3-point lattice (--exhaustive).
#include <set>

#include "boolean2.h"
#include "collider.h"
#include "common/verif.h"
#include "tree2d.h"
#include "vec.h"

using namespace manifold;
using verif::Outcome;
using verif::Tape;

namespace {

bool MyOverlap(const Box& a, const Box& b) {
  for (int k = 0; k < 3; ++k)
    if (a.min[k] > b.max[k] || a.max[k] < b.min[k]) return false;
  return true;
}
bool MyOverlapPt(const Box& a, vec3 p) {  // documented: point projected in z
  return p.x >= a.min.x && p.x <= a.max.x && p.y >= a.min.y && p.y <= a.max.y;
}

using PairSet = std::multiset<std::pair<int, int>>;

template <bool self, class Q>
PairSet RunCollider(const Collider& c, const std::vector<Q>& queries) {
  PairSet got;
  auto f = [&](int q, int l) { got.insert({q, l}); };
  auto rec = MakeSimpleRecorder(f);
  Vec<Q> qv(queries);
  c.Collisions<self, Q>(rec, qv.cview(), false);
  return got;
}

std::string BoxStr(const Box& b) {
  return verif::fmt("[%g,%g,%g:%g,%g,%g]", b.min.x, b.min.y, b.min.z, b.max.x, b.max.y, b.max.z);
}

bool Compare(const PairSet& got, const PairSet& want, Outcome& o, const char* what) {
  if (got == want) return true;
  for (auto& p : want)
    if (got.count(p) != want.count(p)) {
      o.fail(std::string("spatial:") + what, verif::fmt("pair (query %d, leaf %d): brute force has it %zu times, index reported it %zu times", p.first, p.second, want.count(p), got.count(p)));
      return false;
    }
  for (auto& p : got)
    if (want.count(p) == 0) {
      o.fail(std::string("spatial:") + what, verif::fmt("pair (query %d, leaf %d) reported but boxes do not overlap", p.first, p.second));
      return false;
    }
  return false;
}

// --- the checks on one collider instance -------------------------------
void CheckCollider(const std::vector<Box>& leaves, const std::vector<uint32_t>& codes, const std::vector<Box>& qb,
                   const std::vector<vec3>& qp, Outcome& o, const mat3x4* xf, const std::vector<Box>* update) {
  Vec<Box> lb(leaves);
  Vec<uint32_t> lm(codes);
  Collider c(lb.cview(), lm.cview());
  std::vector<Box> cur = leaves;
  if (xf) {
    c.Transform(*xf);
    for (auto& b : cur) b = b.Transform(*xf);
  }
  if (update) {
    Vec<Box> ub(*update);
    c.UpdateBoxes(ub.cview());
    cur = *update;
  }
  PairSet want;
  for (size_t q = 0; q < qb.size(); ++q)
    for (size_t l = 0; l < cur.size(); ++l)
      if (MyOverlap(qb[q], cur[l])) want.insert({int(q), int(l)});
  if (!Compare(RunCollider<false>(c, qb), want, o, "collider-box")) return;
  want.clear();
  for (size_t q = 0; q < qp.size(); ++q)
    for (size_t l = 0; l < cur.size(); ++l)
      if (MyOverlapPt(cur[l], qp[q])) want.insert({int(q), int(l)});
  if (!Compare(RunCollider<false>(c, qp), want, o, "collider-point")) return;
  // self collision: queries are the leaves themselves, q==l skipped
  want.clear();
  for (size_t q = 0; q < cur.size(); ++q)
    for (size_t l = 0; l < cur.size(); ++l)
      if (q != l && MyOverlap(cur[q], cur[l])) want.insert({int(q), int(l)});
  if (!Compare(RunCollider<true>(c, cur), want, o, "collider-self")) return;
}

Box LatBox(Tape& t, int G, bool allowZero) {
  vec3 lo, hi;
  for (int k = 0; k < 3; ++k) {
    int a = t.range(0, G), len = t.range(allowZero ? 0 : 1, 2);
    lo[k] = a * 0.5;  // half steps so queries can sit between leaf coordinates
    hi[k] = (a + len) * 0.5;
  }
  return Box(lo, hi);
}

void Mode0(Tape& t, Outcome& o) {
  auto& d = o.desc;
  int n = t.range(2, 40);
  int G = t.range(1, 8);
  std::vector<Box> leaves;
  for (int i = 0; i < n; ++i) {
    if (i > 0 && t.chance(48)) leaves.push_back(leaves[t.range(0, i - 1)]);  // identical box
    else leaves.push_back(LatBox(t, G, true));
  }
  std::vector<uint32_t> codes(n);
  int codeMode = t.range(0, 3);
  bool equalCodes = false, zeroBox = false;
  if (codeMode <= 1) {
    // as callers do: Morton code of the centre within the joint box, then
    // (box, code) sorted by code
    Box joint;
    for (auto& b : leaves) joint = joint.Union(b);
    std::vector<std::pair<uint32_t, int>> order(n);
    for (int i = 0; i < n; ++i) order[i] = {Collider::MortonCode(leaves[i].Center(), joint), i};
    std::stable_sort(order.begin(), order.end());
    std::vector<Box> sorted(n);
    for (int i = 0; i < n; ++i) { sorted[i] = leaves[order[i].second]; codes[i] = order[i].first; }
    leaves = sorted;
  } else {
    // arbitrary sorted multiset with long equal runs
    uint32_t cur = 0;
    for (int i = 0; i < n; ++i) {
      if (!t.chance(codeMode == 2 ? 160 : 40)) cur += (codeMode == 2 ? t.range(1, 3) : uint32_t(t.u32() >> t.range(0, 24)) + 1);
      codes[i] = cur;
    }
    std::sort(codes.begin(), codes.end());
  }
  for (int i = 1; i < n; ++i) equalCodes |= codes[i] == codes[i - 1];
  for (auto& b : leaves) zeroBox |= (b.min.x == b.max.x || b.min.y == b.max.y || b.min.z == b.max.z);
  d << "collider n=" << n << " G=" << G << " codeMode=" << codeMode << " leaves=";
  for (int i = 0; i < n; ++i) d << BoxStr(leaves[i]) << "#" << codes[i] << " ";
  int nq = t.range(1, 12);
  std::vector<Box> qb;
  std::vector<vec3> qp;
  for (int i = 0; i < nq; ++i) {
    Box q = LatBox(t, G, true);
    if (t.flip()) { vec3 sh(0.25 * t.range(-1, 1), 0.25 * t.range(-1, 1), 0.25 * t.range(-1, 1)); q = Box(q.min + sh, q.max + sh); }
    if (t.chance(40)) {  // half-spaces / slabs: some bounds infinite (as MinGap with an infinite search length produces)
      const double inf = std::numeric_limits<double>::infinity();
      int k = t.range(0, 2);
      if (t.flip()) q.min[k] = -inf; else q.max[k] = inf;
      if (t.chance(64)) { int k2 = t.range(0, 2); q.min[k2] = -inf; q.max[k2] = inf; }
    }
    qb.push_back(q);
    qp.push_back(vec3(0.25 * t.range(0, 2 * G + 4), 0.25 * t.range(0, 2 * G + 4), 0.25 * t.range(0, 2 * G + 4)));
  }
  d << " queries=";
  for (auto& q : qb) d << BoxStr(q) << " ";
  CheckCollider(leaves, codes, qb, qp, o, nullptr, nullptr);
  if (!o.ok) return;
  if (t.flip()) {
    // axis-aligned transform: signed permutation with scale + translation
    int perm[3] = {0, 1, 2};
    std::swap(perm[0], perm[t.range(0, 2)]);
    std::swap(perm[1], perm[t.range(1, 2)]);
    mat3x4 m(vec3(0.0), vec3(0.0), vec3(0.0), vec3(t.range(-2, 2), t.range(-2, 2), t.range(-2, 2)));
    for (int c = 0; c < 3; ++c) m[c][perm[c]] = (t.flip() ? -1.0 : 1.0) * (1 + t.range(0, 2));
    d << " +Transform";
    o.cls("transform");
    CheckCollider(leaves, codes, qb, qp, o, &m, nullptr);
    if (!o.ok) return;
  }
  if (t.flip()) {
    std::vector<Box> fresh;
    for (int i = 0; i < n; ++i) fresh.push_back(LatBox(t, G, true));
    d << " +UpdateBoxes";
    o.cls("update");
    CheckCollider(leaves, codes, qb, qp, o, nullptr, &fresh);
  }
  o.nontrivial = equalCodes || zeroBox;
  if (equalCodes) o.cls("equal-morton");
  if (zeroBox) o.cls("zero-size-box");
}

Box2 LatBox2(Tape& t, int G) {
  int a = t.range(0, G), b = t.range(0, G);
  return Box2(vec2(a * 0.5, b * 0.5), vec2((a + t.range(0, 2)) * 0.5, (b + t.range(0, 2)) * 0.5));
}

void Mode1(Tape& t, Outcome& o) {
  auto& d = o.desc;
  int n = t.range(2, 60), G = t.range(1, 8);
  std::vector<Box2> boxes;
  for (int i = 0; i < n; ++i) boxes.push_back((i && t.chance(40)) ? boxes[t.range(0, i - 1)] : LatBox2(t, G));
  BVH bvh = BVHBuildFromBoxes(boxes);
  int nq = t.range(1, 12);
  std::vector<Box2> qs;
  for (int i = 0; i < nq; ++i) qs.push_back(LatBox2(t, G));
  d << "bvh2d n=" << n << " G=" << G << " boxes=";
  for (auto& b : boxes) d << "[" << b.min.x << "," << b.min.y << ":" << b.max.x << "," << b.max.y << "] ";
  PairSet got, want;
  CollidePairs(bvh, qs, [&](int q, int l) { got.insert({q, l}); });
  for (int q = 0; q < nq; ++q)
    for (int l = 0; l < n; ++l)
      if (qs[q].min.x <= boxes[l].max.x && qs[q].max.x >= boxes[l].min.x && qs[q].min.y <= boxes[l].max.y && qs[q].max.y >= boxes[l].min.y) want.insert({q, l});
  Compare(got, want, o, "bvh2d");
  o.nontrivial = true;
  o.cls("bvh2d");
}

// the documented rule: "Drop shared-endpoint pairs when both non-shared
// endpoints are more than eps from the opposite edge line"
bool MySkippable(const EdgeM& a, const EdgeM& b, const std::vector<vec2>& v, double eps) {
  int s = -1, wa = -1, wb = -1;
  if (a.v0 == b.v0) { s = a.v0; wa = a.v1; wb = b.v1; }
  else if (a.v0 == b.v1) { s = a.v0; wa = a.v1; wb = b.v0; }
  else if (a.v1 == b.v0) { s = a.v1; wa = a.v0; wb = b.v1; }
  else if (a.v1 == b.v1) { s = a.v1; wa = a.v0; wb = b.v0; }
  else return false;
  vec2 dA = v[wa] - v[s], dB = v[wb] - v[s];
  double cr = dA.x * dB.y - dA.y * dB.x;
  double lA = std::sqrt(dA.x * dA.x + dA.y * dA.y), lB = std::sqrt(dB.x * dB.x + dB.y * dB.y);
  // distance of wA from line B is |cr|/lB, of wB from line A is |cr|/lA
  return std::abs(cr) > eps * lB && std::abs(cr) > eps * lA;
}

void Mode2(Tape& t, Outcome& o) {
  auto& d = o.desc;
  bool big = t.chance(24);
  int nv = big ? t.range(600, 900) : t.range(3, 40);
  int G = big ? 40 : t.range(2, 10);
  double eps = t.flip() ? 1e-9 : 0.05;
  std::vector<vec2> verts;
  for (int i = 0; i < nv; ++i) verts.push_back(vec2(t.range(0, G) + (t.chance(32) ? 1e-3 * t.range(-3, 3) : 0.0), t.range(0, G)));
  int ne = big ? t.range(1030, 1300) : t.range(2, 60);
  std::vector<EdgeM> edges;
  for (int i = 0; i < ne; ++i) {
    int a = t.range(0, nv - 1), b = t.range(0, nv - 1);
    if (a == b) b = (a + 1) % nv;
    edges.push_back({a, b, 1});
  }
  std::vector<Box2> boxes;
  for (auto& e : edges) boxes.push_back(BoxOf2DEdge(verts[e.v0], verts[e.v1], eps));
  d << "pairs2d nv=" << nv << " ne=" << ne << " G=" << G << " eps=" << eps;
  if (!big) { d << " edges="; for (auto& e : edges) d << "(" << verts[e.v0].x << "," << verts[e.v0].y << ")-(" << verts[e.v1].x << "," << verts[e.v1].y << ") "; }
  std::vector<std::pair<int, int>> sweep, viaBvh;
  CollectIntersectionPairs(edges, verts, eps, boxes, BVH{}, sweep);
  BVH bvh = BVHBuildFromBoxes(boxes);
  CollectIntersectionPairs(edges, verts, eps, boxes, bvh, viaBvh);
  std::vector<std::pair<int, int>> want;
  long borderline = 0;
  for (int i = 0; i < ne; ++i)
    for (int j = i + 1; j < ne; ++j) {
      if (!boxes[i].DoesOverlap(boxes[j])) continue;
      if (MySkippable(edges[i], edges[j], verts, eps)) continue;
      want.push_back({i, j});
    }
  o.cls(big ? ">1024-edges" : "small");
  o.nontrivial = true;
  if (sweep != viaBvh) { o.fail("spatial:sweep-vs-bvh", verif::fmt("sweep path returned %zu pairs, BVH path %zu", sweep.size(), viaBvh.size())); return; }
  if (sweep != want) {
    // tolerate only disagreement on pairs where my re-implemented skip rule is
    // within rounding of its threshold (none expected on lattice inputs)
    std::set<std::pair<int, int>> a(sweep.begin(), sweep.end()), b(want.begin(), want.end());
    for (auto& p : a) if (!b.count(p)) { o.fail("spatial:pairs-extra", verif::fmt("pair (%d,%d) reported, brute force says no", p.first, p.second)); return; }
    for (auto& p : b) if (!a.count(p)) { o.fail("spatial:pairs-missing", verif::fmt("pair (%d,%d) missing", p.first, p.second)); return; }
    o.fail("spatial:pairs-order", "pairs not lex-sorted/unique");
  }
  (void)borderline;
}

void Mode3(Tape& t, Outcome& o) {
  auto& d = o.desc;
  int n = t.range(1, 200), G = t.range(1, 12);
  std::vector<PolyVert> pts(n);
  for (int i = 0; i < n; ++i) pts[i] = {vec2(t.range(0, G) * 0.5, t.range(0, G) * 0.5), i};
  std::vector<PolyVert> orig = pts;
  BuildTwoDTree(VecView<PolyVert>(pts.data(), pts.size()));
  d << "kdtree n=" << n << " G=" << G;
  // the tree must be a permutation of the input
  {
    std::multiset<std::tuple<double, double, int>> a, b;
    for (auto& p : orig) a.insert({p.pos.x, p.pos.y, p.idx});
    for (auto& p : pts) b.insert({p.pos.x, p.pos.y, p.idx});
    if (a != b) { o.fail("spatial:kdtree-permutation", "BuildTwoDTree lost or duplicated points"); return; }
  }
  int nq = t.range(1, 10);
  for (int q = 0; q < nq; ++q) {
    int a = t.range(-1, G), b = t.range(-1, G);
    Rect r(vec2(a * 0.5, b * 0.5), vec2((a + t.range(0, 4)) * 0.5, (b + t.range(0, 4)) * 0.5));
    std::multiset<int> got, want;
    QueryTwoDTree(VecView<PolyVert>(pts.data(), pts.size()), r, [&](PolyVert p) { got.insert(p.idx); });
    for (auto& p : orig)
      if (p.pos.x >= r.min.x && p.pos.x <= r.max.x && p.pos.y >= r.min.y && p.pos.y <= r.max.y) want.insert(p.idx);
    if (got != want) { o.fail("spatial:kdtree-query", verif::fmt("rect [%g,%g:%g,%g]: tree returned %zu points, scan %zu", r.min.x, r.min.y, r.max.x, r.max.y, got.size(), want.size())); return; }
  }
  o.nontrivial = n > 8;
  o.cls(n > 8 ? "kdtree>8" : "kdtree<=8");
}

void Body(Tape& t, Outcome& o) {
  int mode = t.range(0, 5);
  if (mode <= 2) Mode0(t, o);
  else if (mode == 3) Mode1(t, o);
  else if (mode == 4) Mode2(t, o);
  else Mode3(t, o);
  o.fingerprint = verif::fnv_str(o.desc.str());
}

// exhaustive: leaves are x-intervals over {0,1,2} lifted to boxes, Morton
// codes every sorted multiset over {0,1,2}, queries every interval and point
void Enumerate(const std::function<void(Outcome&)>& report, int level) {
  std::vector<std::pair<int, int>> iv;
  for (int a = 0; a <= 2; ++a) for (int b = a; b <= 2; ++b) iv.push_back({a, b});
  std::vector<Box> qb;
  std::vector<vec3> qp;
  for (auto& q : iv) qb.push_back(Box(vec3(q.first, 0, 0), vec3(q.second, 1, 1)));
  for (double x : {-0.5, 0.0, 0.5, 1.0, 1.5, 2.0, 2.5}) { qb.push_back(Box(vec3(x, 0, 0), vec3(x, 1, 1))); qp.push_back(vec3(x, 0.5, 0.5)); }
  int maxN = level >= 1 ? 4 : 3;
  for (int n = 2; n <= maxN; ++n) {
    std::vector<int> li(n, 0);
    while (true) {
      // all sorted code multisets over {0,1,2}
      std::vector<int> cm(n, 0);
      while (true) {
        bool sorted = true;
        for (int i = 1; i < n; ++i) sorted &= cm[i - 1] <= cm[i];
        if (sorted) {
          Outcome o;
          std::vector<Box> leaves;
          std::vector<uint32_t> codes;
          o.desc << "enum n=" << n << " ";
          for (int i = 0; i < n; ++i) {
            leaves.push_back(Box(vec3(iv[li[i]].first, 0, 0), vec3(iv[li[i]].second, 1, 1)));
            codes.push_back(cm[i]);
            o.desc << "[" << iv[li[i]].first << "," << iv[li[i]].second << "]#" << cm[i] << " ";
          }
          CheckCollider(leaves, codes, qb, qp, o, nullptr, nullptr);
          o.nontrivial = true;
          o.fingerprint = verif::fnv_str(o.desc.str());
          report(o);
        }
        int k = n - 1;
        while (k >= 0 && ++cm[k] > 2) cm[k--] = 0;
        if (k < 0) break;
      }
      int k = n - 1;
      while (k >= 0 && ++li[k] >= int(iv.size())) li[k--] = 0;
      if (k < 0) break;
    }
  }
}
}  // namespace

int main(int argc, char** argv) {
  verif::Config cfg{"C14", "spatial",
                    "Collider over 2-40 lattice boxes (half-step grid, identical and zero-size boxes common; Morton codes as callers compute them or arbitrary sorted multisets with equal runs), box/point/self queries, then axis-aligned Transform and UpdateBoxes; 2D BVH; CollectIntersectionPairs sweep vs BVH vs brute force incl. >1024 edges; k-d tree; oracle = all-pairs closed-interval scan; non-trivial = equal Morton codes or zero-size box present (collider), any case (2D); distinct = hash of case text",
                    12};
  return verif::run_main(argc, argv, cfg, Body, Enumerate);
}
