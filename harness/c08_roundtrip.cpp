// C08: MeshGL export / re-import is lossless (up to renumbering), both
// precisions; OBJ writer/reader round trip; merge vectors and Merge().
#include <map>
#include <set>
#include <sstream>

#include "common/verif.h"
#include "gen/program.h"
#include "oracle/topo.h"
#include "oracle/wind3.h"

using namespace manifold;
using verif::Outcome;
using verif::Tape;

namespace {

// numbering-independent form of an exported mesh: one record per triangle,
// rotated to start at its smallest corner, records sorted
template <class Mesh>
struct Canon {
  using P = decltype(Mesh().vertProperties[0] + 0);
  struct Tri {
    std::vector<double> key;      // corners (pos + non-normal props) + run info + faceID + tangents
    std::vector<double> normals;  // normal channels of the three corners (compared with tolerance)
    bool operator<(const Tri& o) const { return key < o.key; }
  };
  std::vector<Tri> tris;
  bool anyTangents = false, anyNormalRun = false;
  size_t runs = 0;
};

template <class Mesh>
Canon<Mesh> MakeCanon(const Mesh& g, bool withFaceID) {
  Canon<Mesh> c;
  const size_t np = g.numProp;
  const size_t nt = g.triVerts.size() / 3;
  c.anyTangents = !g.halfedgeTangent.empty();
  c.runs = g.runOriginalID.size();
  for (size_t run = 0; run + 1 < g.runIndex.size(); ++run) {
    const bool hasN = run < g.runFlags.size() && (g.runFlags[run] & 2) && np >= 6;
    c.anyNormalRun |= hasN;
    for (size_t t = g.runIndex[run] / 3; t < g.runIndex[run + 1] / 3 && t < nt; ++t) {
      // corner records
      std::vector<std::vector<double>> corner(3), nrm(3), tang(3);
      for (int k = 0; k < 3; ++k) {
        size_t v = g.triVerts[3 * t + k];
        for (size_t p = 0; p < np; ++p) {
          double val = g.vertProperties[v * np + p];
          if (hasN && p >= 3 && p < 6) nrm[k].push_back(val);
          else corner[k].push_back(val + 0.0);
        }
        if (c.anyTangents)
          for (int q = 0; q < 4; ++q) tang[k].push_back(g.halfedgeTangent[4 * (3 * t + k) + q] + 0.0);
      }
      int first = 0;
      for (int k = 1; k < 3; ++k)
        if (corner[k] < corner[first]) first = k;
      typename Canon<Mesh>::Tri tr;
      for (int k = 0; k < 3; ++k) {
        int i = (first + k) % 3;
        tr.key.insert(tr.key.end(), corner[i].begin(), corner[i].end());
        tr.key.insert(tr.key.end(), tang[i].begin(), tang[i].end());
        tr.normals.insert(tr.normals.end(), nrm[i].begin(), nrm[i].end());
      }
      tr.key.push_back(double(g.runOriginalID[run]));
      tr.key.push_back(run < g.runFlags.size() ? double(g.runFlags[run]) : 0.0);
      // an absent run transform means identity (MeshGLP::GetRunTransform)
      static const double ident[12] = {1, 0, 0, 0, 1, 0, 0, 0, 1, 0, 0, 0};
      for (int q = 0; q < 12; ++q) tr.key.push_back(g.runTransform.size() >= 12 * (run + 1) ? g.runTransform[12 * run + q] + 0.0 : ident[q]);
      if (withFaceID && !g.faceID.empty()) tr.key.push_back(double(g.faceID[t]));
      c.tris.push_back(std::move(tr));
    }
  }
  std::sort(c.tris.begin(), c.tris.end());
  return c;
}

template <class Mesh>
bool SameCanon(const Canon<Mesh>& a, const Canon<Mesh>& b, Outcome& o, const char* tag) {
  if (a.tris.size() != b.tris.size()) { o.fail(std::string("roundtrip:triangle-count-") + tag, verif::fmt("%zu vs %zu triangles", a.tris.size(), b.tris.size())); return false; }
  for (size_t i = 0; i < a.tris.size(); ++i) {
    if (a.tris[i].key != b.tris[i].key) {
      if (getenv("VERIF_DEBUG")) for (auto* c : {&a, &b}) { for (auto& tr : c->tris) { fprintf(stderr, "["); for (double v : tr.key) fprintf(stderr, "%g ", v); fprintf(stderr, "]\n"); } fprintf(stderr, "----\n"); }
      // find the first differing field for the message
      size_t j = 0;
      while (j < a.tris[i].key.size() && j < b.tris[i].key.size() && a.tris[i].key[j] == b.tris[i].key[j]) ++j;
      o.fail(std::string("roundtrip:triangle-differs-") + tag, verif::fmt("sorted triangle %zu differs at field %zu of %zu (%.17g vs %.17g)", i, j, a.tris[i].key.size(), j < a.tris[i].key.size() ? a.tris[i].key[j] : 0.0, j < b.tris[i].key.size() ? b.tris[i].key[j] : 0.0));
      return false;
    }
    // channels flagged as normals "may differ by renormalisation": the library renormalises them whenever it
    // transforms (also on import), and Boolean interpolation leaves them slightly shorter than 1, so the
    // directions are compared, not the raw values
    auto na = a.tris[i].normals, nb = b.tris[i].normals;
    for (auto* nv : {&na, &nb})
      for (size_t c = 0; c + 2 < nv->size(); c += 3) { double l = std::sqrt((*nv)[c] * (*nv)[c] + (*nv)[c + 1] * (*nv)[c + 1] + (*nv)[c + 2] * (*nv)[c + 2]); if (l > 1e-30 && std::isfinite(l)) { (*nv)[c] /= l; (*nv)[c + 1] /= l; (*nv)[c + 2] /= l; } }
    for (size_t j = 0; j < na.size() && j < nb.size(); ++j)
      if (std::abs(na[j] - nb[j]) > (sizeof(typename Canon<Mesh>::P) == 4 ? 1e-6 : 1e-12)) {
        if (getenv("VERIF_DEBUG")) { fprintf(stderr, "NORMALS tri %zu:", i); for (double v : a.tris[i].normals) fprintf(stderr, " %.9g", v); fprintf(stderr, " |"); for (double v : b.tris[i].normals) fprintf(stderr, " %.9g", v); fprintf(stderr, "\n"); }
        o.fail(std::string("roundtrip:normal-differs-") + tag, verif::fmt("normal channel differs by %.3g", std::abs(a.tris[i].normals[j] - b.tris[i].normals[j]))); return false; }
  }
  return true;
}

void Body(Tape& t, Outcome& o) {
  gen::Pool pool;
  gen::ProgOptions opt;
  opt.degenerate = false;
  opt.maxTris = 1500;
  opt.allowMinkowski = false;
  opt.allowLevelSet = false;
  opt.allowSimplify = false;
  opt.allowCompose = false;
  opt.allowImport = false;
  opt.keepNormalsValid = true;
  int steps = t.range(2, 9);
  for (int s = 0; s < steps; ++s) gen::Step(t, pool, o.desc, opt);
  // round-trip the last few values
  int from = std::max(0, int(pool.v.size()) - 3);
  for (int vi = from; vi < int(pool.v.size()); ++vi) {
    const Manifold& m = pool.v[vi].m;
    if (m.Status() != Manifold::Error::NoError || m.IsEmpty()) continue;
    o.desc << " ; roundtrip(v" << vi << ")";
    MeshGL64 g = m.GetMeshGL64();
    Manifold m2(g);
    if (m2.Status() != Manifold::Error::NoError && o.desc.str().find("Hull") != std::string::npos) {
      // known finding F25: a Hull result with a doubled edge / repeated vertex is not importable
      oracle::TopoReport trh = oracle::CheckManifold(m);
      if (!trh.ok && (trh.sig == "topo:duplicate-edge" || trh.sig == "topo:degenerate-tri")) { o.known("F25-hull-duplicate-edge", "roundtrip:import-status-hull", trh.msg); return; }
    }
    if (m2.Status() != Manifold::Error::NoError) { o.fail("roundtrip:import-status", verif::fmt("re-import of v%d's own export has Status %d", vi, int(m2.Status()))); return; }
    MeshGL64 g2 = m2.GetMeshGL64();
    if (g.numProp != g2.numProp) { o.fail("roundtrip:numProp", ""); return; }
    auto c1 = MakeCanon(g, true), c2 = MakeCanon(g2, true);
    // the normal of a zero-area triangle is not determined (0/0): on meshes with degenerate triangles (e.g. the
    // flat "hull" of collinear points, F12) the normal channels are not compared
    const bool degenerateMesh = m.NumDegenerateTris() > 0;
    if (degenerateMesh) { for (auto& tr : c1.tris) tr.normals.clear(); for (auto& tr : c2.tris) tr.normals.clear(); o.counters["normals-skipped-degenerate"]++; }
    if (!SameCanon(c1, c2, o, "64")) return;
    if (m2.GetTolerance() < m.GetTolerance()) { o.fail("roundtrip:tolerance-shrank", verif::fmt("%.17g -> %.17g", m.GetTolerance(), m2.GetTolerance())); return; }
    if (m2.NumTri() == m.NumTri() && m2.NumVert() < m.NumVert()) {
      // known finding F16: RefineToLength/RefineToTolerance on a tangent-bearing mesh can strand a vertex that no
      // triangle references; the import drops exactly those vertices
      std::vector<char> used(g.NumVert(), 0);
      for (auto v : g.triVerts) if (size_t(v) < used.size()) used[v] = 1;
      size_t stranded = 0;
      for (char u : used) stranded += !u;
      // (the stranded vertex is either exported unreferenced, or counted by NumVert() and not exported at all)
      if ((stranded == 0 || m.NumVert() - m2.NumVert() == stranded) && o.desc.str().find("RefineTo") != std::string::npos) { o.known("F16-refine-stranded-vertex", "roundtrip:counts-stranded-vertex", verif::fmt("export has %zu vertices referenced by no triangle; NumVert %zu->%zu", stranded, m.NumVert(), m2.NumVert())); return; }
    }
    if (m2.NumVert() != m.NumVert() || m2.NumTri() != m.NumTri()) { o.fail("roundtrip:counts", verif::fmt("NumVert %zu->%zu NumTri %zu->%zu", m.NumVert(), m2.NumVert(), m.NumTri(), m2.NumTri())); return; }
    // same surface under refinement (tangents survive the trip)
    if (m.NumTri() <= 800) {
      Manifold r1 = m.Refine(2), r2 = m2.Refine(2);
      if (r1.Status() != r2.Status()) { o.fail("roundtrip:refine-status", verif::fmt("Refine(2): Status %d directly, %d after the round trip", int(r1.Status()), int(r2.Status()))); return; }
      if (r1.Status() == Manifold::Error::NoError) {
        oracle::Soup s1 = oracle::MakeSoup(r1), s2 = oracle::MakeSoup(r2);
        double v1 = oracle::Volume(s1), v2 = oracle::Volume(s2), a1 = oracle::Area(s1), a2 = oracle::Area(s2), sc = s1.scale();
        if (std::abs(v1 - v2) > 1e-10 * (std::abs(v1) + sc * sc * sc) || std::abs(a1 - a2) > 1e-10 * (a1 + sc * sc)) { o.fail("roundtrip:refine-surface", verif::fmt("Refine(2) volume %.17g vs %.17g, area %.17g vs %.17g", v1, v2, a1, a2)); return; }
      }
    }
    // 32-bit path: structure preserved, positions within float rounding, and the float export is a fixed point
    MeshGL f = m.GetMeshGL();
    Manifold m3(f);
    if (m3.Status() != Manifold::Error::NoError) { o.fail("roundtrip:import32-status", verif::fmt("Status %d", int(m3.Status()))); return; }
    MeshGL f2 = m3.GetMeshGL();
    auto d1 = MakeCanon(f, true), d2 = MakeCanon(f2, true);
    if (degenerateMesh) { for (auto& tr : d1.tris) tr.normals.clear(); for (auto& tr : d2.tris) tr.normals.clear(); }
    if (!SameCanon(d1, d2, o, "32")) return;
    if (m3.NumTri() != m.NumTri() || m3.NumVert() != m.NumVert()) { o.fail("roundtrip:counts32", verif::fmt("NumVert %zu->%zu NumTri %zu->%zu", m.NumVert(), m3.NumVert(), m.NumTri(), m3.NumTri())); return; }
    if (f.NumVert() == g.NumVert())
      for (size_t i = 0; i < g.vertProperties.size(); ++i) {
        double want = g.vertProperties[i];
        if (double(f.vertProperties[i]) != double(float(want))) {
          // normal channels may be renormalised in float
          o.counters["float_prop_not_rounded"]++;
          break;
        }
      }
    // merge vectors alone restore manifoldness; Merge() restores them when stripped
    {
      MeshGL64 stripped = g;
      stripped.mergeFromVert.clear();
      stripped.mergeToVert.clear();
      bool hadMerge = !g.mergeFromVert.empty();
      // (only for a solid with volume: Merge() works within tolerance, so a
      // zero-size degenerate mesh legitimately collapses)
      if (hadMerge && std::abs(m.Volume()) > 1e-9) {
        stripped.Merge();
        Manifold m4(stripped);
        if (m4.Status() != Manifold::Error::NoError) { o.fail("roundtrip:merge", verif::fmt("Merge() on the stripped export of a manifold mesh gives Status %d", int(m4.Status()))); return; }
        // (Merge() works within tolerance and may merge more than the lost vectors
        // did, so only manifoldness is promised, not the triangle count)
        o.cls("merge-vectors");
      }
    }
    // OBJ: positions and triangles exactly
    {
      std::stringstream ss;
      if (!m.WriteOBJ(ss)) { o.fail("roundtrip:obj-write", ""); return; }
      Manifold mo = Manifold::ReadOBJ(ss);
      if (mo.Status() != Manifold::Error::NoError) { o.fail("roundtrip:obj-status", verif::fmt("ReadOBJ(WriteOBJ(m)) has Status %d", int(mo.Status()))); return; }
      MeshGL64 go = mo.GetMeshGL64();
      std::multiset<std::array<double, 9>> ta, tb;
      auto tri = [](const MeshGL64& q, size_t t2) {
        std::array<std::array<double, 3>, 3> c;
        for (int k = 0; k < 3; ++k) { size_t v = q.triVerts[3 * t2 + k]; for (int j = 0; j < 3; ++j) c[k][j] = q.vertProperties[v * q.numProp + j] + 0.0; }
        int first = 0;
        for (int k = 1; k < 3; ++k) if (c[k] < c[first]) first = k;
        std::array<double, 9> r;
        for (int k = 0; k < 3; ++k) for (int j = 0; j < 3; ++j) r[3 * k + j] = c[(first + k) % 3][j];
        return r;
      };
      for (size_t t2 = 0; t2 < g.NumTri(); ++t2) ta.insert(tri(g, t2));
      for (size_t t2 = 0; t2 < go.NumTri(); ++t2) tb.insert(tri(go, t2));
      if (ta != tb) {
        // is it only a loss of digits?
        double worst = 0;
        if (ta.size() == tb.size()) { auto ia = ta.begin(); auto ib = tb.begin(); for (; ia != ta.end(); ++ia, ++ib) for (int j = 0; j < 9; ++j) worst = std::max(worst, std::abs((*ia)[j] - (*ib)[j])); }
        o.fail("roundtrip:obj", verif::fmt("OBJ round trip changed positions/triangles (%zu vs %zu triangles, largest coordinate change %.3g)", ta.size(), tb.size(), worst));
        return;
      }
    }
    if (c1.runs >= 2) o.cls("multi-run");
    if (c1.anyTangents) o.cls("tangents");
    if (c1.anyNormalRun) o.cls("normals-flag");
    if (g.numProp > 3) o.cls("properties");
    for (size_t r = 0; r < g.runFlags.size(); ++r) if (g.runFlags[r] & 1) { o.cls("backside-run"); break; }
    if (c1.runs >= 2 || c1.anyTangents || !g.mergeFromVert.empty()) o.nontrivial = true;
  }
  o.fingerprint = verif::fnv_str(o.desc.str());
}
}  // namespace

int main(int argc, char** argv) {
  verif::Config cfg{"C08", "roundtrip",
                    "programs (2-9 steps: Booleans incl. several instances of one value, mirrors, SetProperties, CalculateNormals, SmoothOut/SmoothByNormals/Smooth, Refine*, AsOriginal, Decompose, Hull...) then, for the last 3 values: MeshGL64 export -> import -> export compared as numbering-independent sorted triangle records (corner positions+properties bitwise, normal channels to 1e-12, original ID, run transform, flags, face ID, per-corner tangents), tolerance not smaller, Refine(2) same status/volume/area; same for the float path (fixed point of export/import); Merge() on the stripped export; WriteOBJ->ReadOBJ positions and triangle set exact; non-trivial = >=2 runs or tangents or merge vectors; distinct = program text",
                    10};
  return verif::run_main(argc, argv, cfg, Body);
}
