// C01: after every step of a generated program of public operations (valid
// arguments, deliberately degenerate geometry), every Manifold returned is
// either an empty error or a closed oriented 2-manifold whose getters agree
// with its export (oracle/topo.h).
#include "common/verif.h"
#include "gen/program.h"
#include "oracle/topo.h"

using namespace manifold;
using verif::Outcome;
using verif::Tape;

#ifndef C01_MAXTRIS
#define C01_MAXTRIS 3000
#endif

static void Body(Tape& t, Outcome& o) {
  gen::Pool pool;
  gen::ProgOptions opt;
  opt.maxTris = C01_MAXTRIS;
  opt.degenerate = !t.chance(64);
  int steps = t.range(2, 12);
  bool topoChange = false;
  size_t pinched = 0;
  for (int s = 0; s < steps; ++s) {
    gen::StepInfo si = gen::Step(t, pool, o.desc, opt);
    if (si.skippedByRule) o.counters["skipped:" + si.rule]++;
    o.cls("op:" + si.op);
    for (int k = si.firstOut; k < si.firstOut + si.numOut; ++k) {
      const Manifold& m = pool.v[k].m;
      oracle::TopoReport r = oracle::CheckManifold(m);
      if (!r.ok && (r.sig == "topo:unreferenced-vert" || r.sig == "topo:numvert-mismatch" || r.sig == "topo:duplicate-edge") && (si.op == "RefineToLength" || si.op == "RefineToTolerance") && !si.inputs.empty() && pool.v[si.inputs[0]].tangents) {
        // known finding F16 (see known_findings.json): class excluded, counted
        o.known("F16-refine-stranded-vertex", "topo:unreferenced-vert", r.msg);
        return;
      }
      if (!r.ok && (r.sig == "topo:duplicate-edge" || r.sig == "topo:degenerate-tri") && (si.op == "Hull" || si.op == "HullPts")) {
        // known finding F25 (quickhull on many exactly collinear / coplanar points)
        o.known("F25-hull-duplicate-edge", "topo:duplicate-edge", r.msg);
        return;
      }
      if (!r.ok) {
        o.fail(r.sig, verif::fmt("after step %d (%s), value v%d: %s", s, si.op.c_str(), k, r.msg.c_str()));
        return;
      }
      if (m.Status() != Manifold::Error::NoError) o.cls("error-status-result");
      if (si.topologyChanging && r.numTri > 0 && si.op != "leaf") topoChange = true;
    }
  }
  o.nontrivial = topoChange;
  o.cls(opt.degenerate ? "degenerate-allowed" : "clean");
  o.fingerprint = verif::fnv_str(o.desc.str());
}

int main(int argc, char** argv) {
  verif::Config cfg{"C01", "programs",
                    "stateful programs of 2-12 public operations over a growing pool (32 op kinds: primitives, lattice boxes, Boolean/Batch/Split/plane cuts, transforms incl. flattening scales and mirrors, Warp incl. folding, SetProperties/CalculateNormals/Curvature, AsOriginal, SetTolerance/Simplify, Refine*, SmoothOut/SmoothByNormals/Smooth, Hull, Minkowski, Decompose, Compose, copies, MeshGL re-import, LevelSet, self-Booleans against coincident copies, Extrude/Revolve); every returned value checked; non-trivial = program contains a topology-changing op with non-empty result; distinct = hash of program text",
                    10};
  return verif::run_main(argc, argv, cfg, Body);
}
