// C19: refinement keeps the surface; simplification only removes redundancy.
// The anonymous-namespace Partition class is reached by including the
// library TU itself (found through -I$(REPO)/src); this TU then supplies
// subdivision.cpp's symbols instead of the archive member.
#include "subdivision.cpp"

#include <map>
#include <set>

#include "common/verif.h"
#include "gen/solids.h"
#include "oracle/topo.h"
#include "oracle/wind3.h"

using verif::Outcome;
using verif::Tape;
using oracle::Soup;
using oracle::V3;

namespace {

// ---------- exhaustive: every subdivision pattern tiles its triangle/quad ----------
void CheckPartition(ivec4 div, Outcome& o) {
  o.desc << "Partition(" << div[0] << "," << div[1] << "," << div[2] << "," << div[3] << ")";
  Partition p = Partition::GetPartition(div);
  const bool quad = div[3] > 0;
  const int corners = quad ? 4 : 3;
  const size_t nv = p.vertBary.size();
  // expected boundary vertex count
  int sumDiv = 0;
  for (int i = 0; i < corners; ++i) sumDiv += p.sortedDivisions[i];
  // sortedDivisions must be a permutation (tri) / rotation (quad) of the input
  {
    std::multiset<int> a, b;
    for (int i = 0; i < corners; ++i) { a.insert(div[i]); b.insert(p.sortedDivisions[i]); }
    if (a != b) { o.fail("partition:divisions", "sortedDivisions is not a rearrangement of the requested divisions"); return; }
  }
  if (nv < size_t(sumDiv)) { o.fail("partition:vertex-count", "fewer vertices than boundary points"); return; }
  // 2D embedding of barycentrics: tri -> (0,0),(1,0),(0,1); quad -> unit square
  auto pos = [&](const vec4& b) { return quad ? vec2(b[1] + b[2], b[2] + b[3]) : vec2(b[1], b[2]); };
  for (size_t i = 0; i < nv; ++i) {
    const vec4& b = p.vertBary[i];
    double s = b[0] + b[1] + b[2] + b[3];
    for (int k = 0; k < 4; ++k)
      if (!(b[k] >= -1e-12)) { o.fail("partition:negative-barycentric", verif::fmt("vertex %zu has weight %g", i, b[k])); return; }
    if (std::abs(s - 1) > 1e-12) { o.fail("partition:barycentric-sum", verif::fmt("vertex %zu weights sum to %.17g", i, s)); return; }
    if (!quad && b[3] != 0) { o.fail("partition:tri-4th-weight", ""); return; }
  }
  // corners first
  for (int i = 0; i < corners; ++i)
    for (int k = 0; k < 4; ++k)
      if (p.vertBary[i][k] != (i == k ? 1.0 : 0.0)) { o.fail("partition:corner", "first vertices are not the corners"); return; }
  // boundary vertices: edge i (corner i -> i+1) carries sortedDivisions[i]-1 points at j/n, in order
  size_t at = corners;
  for (int i = 0; i < corners; ++i) {
    int n = p.sortedDivisions[i];
    for (int j = 1; j < n; ++j, ++at) {
      if (at >= nv) { o.fail("partition:boundary-missing", ""); return; }
      vec4 want(0.0);
      want[i] = 1.0 - double(j) / n;
      want[(i + 1) % corners] = double(j) / n;
      for (int k = 0; k < 4; ++k)
        if (std::abs(p.vertBary[at][k] - want[k]) > 1e-12) { o.fail("partition:boundary-position", verif::fmt("boundary vertex %zu is not at %d/%d on edge %d", at, j, n, i)); return; }
    }
  }
  // interior vertices strictly inside
  for (size_t i = at; i < nv; ++i) {
    vec2 q = pos(p.vertBary[i]);
    bool in = quad ? (q.x > 1e-12 && q.x < 1 - 1e-12 && q.y > 1e-12 && q.y < 1 - 1e-12) : (q.x > 1e-12 && q.y > 1e-12 && q.x + q.y < 1 - 1e-12);
    if (!in) { o.fail("partition:interior-on-boundary", verif::fmt("interior vertex %zu lies on the boundary", i)); return; }
  }
  // triangles: indices valid, every vertex used, positive area, areas sum, edges paired
  std::vector<char> used(nv, 0);
  std::map<std::pair<int, int>, int> edges;
  double area = 0;
  for (size_t t = 0; t < p.triVert.size(); ++t) {
    ivec3 tv = p.triVert[t];
    for (int k = 0; k < 3; ++k) {
      if (tv[k] < 0 || size_t(tv[k]) >= nv) { o.fail("partition:index-range", ""); return; }
      used[tv[k]] = 1;
      edges[{tv[k], tv[(k + 1) % 3]}]++;
    }
    vec2 a = pos(p.vertBary[tv[0]]), b = pos(p.vertBary[tv[1]]), c = pos(p.vertBary[tv[2]]);
    double ar = ((b.x - a.x) * (c.y - a.y) - (b.y - a.y) * (c.x - a.x)) / 2;
    if (!(ar > 1e-14)) { o.fail("partition:triangle-orientation", verif::fmt("triangle %zu has barycentric area %.3g", t, ar)); return; }
    area += ar;
  }
  for (size_t i = 0; i < nv; ++i)
    if (!used[i]) { o.fail("partition:unused-vertex", verif::fmt("vertex %zu is used by no triangle", i)); return; }
  if (std::abs(area - (quad ? 1.0 : 0.5)) > 1e-11) { o.fail("partition:area", verif::fmt("barycentric areas sum to %.17g", area)); return; }
  // expected triangle count from Euler: T = 2*V - B - 2 with B boundary vertices
  long B = sumDiv, T = 2 * long(nv) - B - 2;
  if (long(p.triVert.size()) != T) { o.fail("partition:triangle-count", verif::fmt("%zu triangles, Euler expects %ld", p.triVert.size(), T)); return; }
  long boundaryEdges = 0;
  for (auto& e : edges) {
    if (e.second != 1) { o.fail("partition:duplicate-edge", ""); return; }
    auto rev = std::make_pair(e.first.second, e.first.first);
    if (!edges.count(rev)) ++boundaryEdges;
  }
  if (boundaryEdges != B) { o.fail("partition:boundary-edges", verif::fmt("%ld unpaired edges, boundary has %ld", boundaryEdges, B)); return; }
  o.nontrivial = true;
}

void Enumerate(const std::function<void(Outcome&)>& report, int level) {
  int maxTri = level >= 1 ? 24 : 12, maxQuad = level >= 1 ? 10 : 6;
  for (int a = 1; a <= maxTri; ++a)
    for (int b = 1; b <= maxTri; ++b)
      for (int c = 1; c <= maxTri; ++c) {
        Outcome o;
        CheckPartition(ivec4(a, b, c, 0), o);
        o.fingerprint = verif::fnv_str(o.desc.str());
        report(o);
      }
  for (int a = 1; a <= maxQuad; ++a)
    for (int b = 1; b <= maxQuad; ++b)
      for (int c = 1; c <= maxQuad; ++c)
        for (int d = 1; d <= maxQuad; ++d) {
          Outcome o;
          CheckPartition(ivec4(a, b, c, d), o);
          o.fingerprint = verif::fnv_str(o.desc.str());
          report(o);
        }
}

// ---------- generated: Refine* and Simplify/SetTolerance on meshes ----------
std::multiset<std::array<double, 3>> VertSet(const MeshGL64& g) {
  std::multiset<std::array<double, 3>> s;
  for (size_t i = 0; i < g.vertProperties.size(); i += g.numProp) s.insert({g.vertProperties[i] + 0.0, g.vertProperties[i + 1] + 0.0, g.vertProperties[i + 2] + 0.0});
  return s;
}
std::set<std::array<double, 3>> VertPosSet(const MeshGL64& g) {
  std::set<std::array<double, 3>> s;
  for (size_t i = 0; i < g.vertProperties.size(); i += g.numProp) s.insert({g.vertProperties[i] + 0.0, g.vertProperties[i + 1] + 0.0, g.vertProperties[i + 2] + 0.0});
  return s;
}

Manifold GenBase(Tape& t, std::ostream& d, bool& hasProps) {
  Manifold m = gen::GenPose(t, gen::GenPrimitive(t, d), 0, d, 0.3);
  if (t.chance(96)) {
    Manifold b = gen::GenPose(t, gen::GenPrimitive(t, d, 3), 1, d, 0.4);
    bool sub = t.flip();
    d << (sub ? " -" : " +") << " second";
    Manifold r = sub ? m - b : m + b;
    if (!r.IsEmpty()) m = r;
  }
  hasProps = t.chance(96);
  if (hasProps) { m = m.SetProperties(2, [](double* o, vec3 p, const double*) { o[0] = p.x + 2 * p.y; o[1] = p.z - p.x; }); d << " .SetProperties(2)"; }
  return m;
}

void ModeRefineFlat(Tape& t, Outcome& o) {
  auto& d = o.desc;
  bool hasProps;
  Manifold m = GenBase(t, d, hasProps);
  if (m.NumTri() > 1500) { o.exclude("base too large"); return; }
  MeshGL64 g0 = m.GetMeshGL64();
  Soup s0 = oracle::MakeSoup(g0);
  double scale = s0.scale(), v0 = oracle::Volume(s0), a0 = oracle::Area(s0);
  int k = t.range(0, 2);
  Manifold r;
  int n = 0;
  if (k == 0) { n = t.range(1, 6); if (m.NumTri() * n * n > 40000) n = 2; r = m.Refine(n); d << " .Refine(" << n << ")"; }
  else if (k == 1) { double len = t.real(0.08, 1.0); if (a0 / (len * len) > 20000) len = std::sqrt(a0 / 20000); r = m.RefineToLength(len); d << " .RefineToLength(" << gen::num(len) << ")"; }
  else { double tol = t.real(0.001, 0.2); r = m.RefineToTolerance(tol); d << " .RefineToTolerance(" << gen::num(tol) << ")"; }
  if (r.Status() != Manifold::Error::NoError) { o.fail("refine:status", verif::fmt("Status %d", int(r.Status()))); return; }
  oracle::TopoReport tr = oracle::CheckManifold(r);
  if (!tr.ok) { o.fail("refine:" + tr.sig, tr.msg); return; }
  MeshGL64 g1 = r.GetMeshGL64();
  Soup s1 = oracle::MakeSoup(g1);
  if (k == 0 && r.NumTri() != size_t(n) * n * m.NumTri()) { o.fail("refine:triangle-count", verif::fmt("Refine(%d): %zu triangles from %zu", n, r.NumTri(), m.NumTri())); return; }
  if (k == 2 && r.NumTri() != m.NumTri()) { o.fail("refine:tolerance-without-tangents", "RefineToTolerance changed a mesh without tangents"); return; }
  if (k == 0 && n > 1) {
    // uniform refinement splits every triangle into n*n congruent-area pieces
    std::vector<double> want, got;
    for (size_t i = 0; i < s0.t.size(); ++i) { double a = oracle::norm(oracle::cross(s0.B(i) - s0.A(i), s0.C(i) - s0.A(i))); for (int q = 0; q < n * n; ++q) want.push_back(a); }
    for (size_t i = 0; i < s1.t.size(); ++i) got.push_back(oracle::norm(oracle::cross(s1.B(i) - s1.A(i), s1.C(i) - s1.A(i))) * n * n);
    std::sort(want.begin(), want.end());
    std::sort(got.begin(), got.end());
    for (size_t i = 0; i < want.size() && i < got.size(); ++i)
      if (std::abs(want[i] - got[i]) > 1e-9 * (want[i] + scale * scale)) { o.fail("refine:non-uniform-subdivision", verif::fmt("Refine(%d): sorted sub-triangle area #%zu is %.17g, expected %.17g (vertices are not at barycentric positions)", n, i, got[i] / (n * n), want[i] / (n * n))); return; }
  }
  double v1 = oracle::Volume(s1), a1 = oracle::Area(s1);
  if (std::abs(v1 - v0) > 1e-11 * (std::abs(v0) + scale * scale * scale)) { o.fail("refine:volume", verif::fmt("volume %.17g -> %.17g", v0, v1)); return; }
  if (std::abs(a1 - a0) > 1e-11 * (a0 + scale * scale)) { o.fail("refine:area", verif::fmt("area %.17g -> %.17g", a0, a1)); return; }
  auto p0 = VertPosSet(g0), p1 = VertPosSet(g1);
  for (auto& v : p0)
    if (!p1.count(v)) { o.fail("refine:original-vertex-lost", verif::fmt("original vertex (%.17g,%.17g,%.17g) is not a vertex of the refined mesh", v[0], v[1], v[2])); return; }
  // every new vertex lies on the old surface (piecewise-planar: refinement adds nothing off it)
  size_t stride = std::max<size_t>(1, s1.v.size() / 60);
  for (size_t i = 0; i < s1.v.size(); i += stride)
    if (oracle::SurfaceDist(s0, s1.v[i]) > 1e-10 * scale) { o.fail("refine:vertex-off-surface", verif::fmt("refined vertex %zu is %.3g off the original surface", i, oracle::SurfaceDist(s0, s1.v[i]))); return; }
  // properties: affine field is reproduced at new vertices
  if (hasProps && g1.numProp == 5)
    for (size_t i = 0; i < g1.vertProperties.size(); i += 5 * stride) {
      double x = g1.vertProperties[i], y = g1.vertProperties[i + 1], z = g1.vertProperties[i + 2];
      if (std::abs(g1.vertProperties[i + 3] - (x + 2 * y)) > 1e-9 * (1 + scale) || std::abs(g1.vertProperties[i + 4] - (z - x)) > 1e-9 * (1 + scale)) { o.fail("refine:property-interpolation", verif::fmt("affine property field not reproduced at refined vertex %zu: props (%.17g,%.17g), field (%.17g,%.17g)", i / 5, g1.vertProperties[i + 3], g1.vertProperties[i + 4], x + 2 * y, z - x)); return; }
    }
  o.nontrivial = r.NumTri() > m.NumTri() && k != 0 ? true : (k == 0 && n > 1);
  o.cls(k == 0 ? "Refine(n)" : k == 1 ? "RefineToLength" : "RefineToTolerance");
  if (hasProps) o.cls("with-properties");
}

void ModeRefineTangents(Tape& t, Outcome& o) {
  auto& d = o.desc;
  Manifold m = gen::GenPose(t, gen::GenPrimitive(t, d, 4), 0, d, 0.3);
  if (t.chance(96)) {  // a Boolean result as the smooth base (several runs, new intersection vertices)
    Manifold b = gen::GenPose(t, gen::GenPrimitive(t, d, 3), 1, d, 0.4);
    Manifold r = t.flip() ? m - b : m + b;
    d << " (boolean with second)";
    if (!r.IsEmpty()) m = r;
  }
  if (m.NumTri() > 600) { o.exclude("base too large"); return; }
  int how = t.range(0, 2);
  Manifold sm;
  if (how == 0) { double ang = t.real(0, 180), s = t.unit(); sm = m.SmoothOut(ang, s); d << " .SmoothOut(" << gen::num(ang) << "," << gen::num(s) << ")"; }
  else if (how == 1) { sm = m.CalculateNormals(0, t.real(20, 90)).SmoothByNormals(0); d << " .CalculateNormals.SmoothByNormals"; }
  else { sm = Manifold::Smooth(m.GetMeshGL64()); d << " Smooth(mesh)"; }
  if (t.chance(80)) {
    // RefineToLength / RefineToTolerance on a tangent-bearing mesh: closed manifold, originals kept
    bool byLen = t.flip();
    double v = byLen ? t.real(0.1, 0.6) : t.real(0.005, 0.1);
    Manifold r = byLen ? sm.RefineToLength(v) : sm.RefineToTolerance(v);
    d << (byLen ? " .RefineToLength(" : " .RefineToTolerance(") << gen::num(v) << ")";
    if (r.Status() != Manifold::Error::NoError) { o.fail("refine:tangent-status", verif::fmt("Status %d", int(r.Status()))); return; }
    oracle::TopoReport tr = oracle::CheckManifold(r);
    // known finding F16: non-uniform refinement of a tangent-bearing mesh can
    // strand one vertex (referenced by no triangle); any other topology
    // failure here is still a violation
    // F16: Refine* of a tangent-bearing mesh built from a Boolean result occasionally leaves the topology damaged:
    // a stranded vertex (also seen as a vertex-count mismatch) or a doubled edge
    if (!tr.ok && (tr.sig == "topo:unreferenced-vert" || tr.sig == "topo:numvert-mismatch" || tr.sig == "topo:duplicate-edge")) { o.known("F16-refine-stranded-vertex", "refine:tangents-topo:unreferenced-vert", tr.sig + ": " + tr.msg); return; }
    if (!tr.ok) { o.fail("refine:tangents-" + tr.sig, tr.msg); return; }
    auto p0 = VertPosSet(sm.GetMeshGL64()), p1 = VertPosSet(r.GetMeshGL64());
    for (auto& q : p0)
      if (!p1.count(q)) { o.fail("refine:tangent-original-vertex-moved", "an original vertex is not a vertex of the refined smooth mesh"); return; }
    o.nontrivial = r.NumTri() > sm.NumTri();
    o.cls(byLen ? "tangents-RefineToLength" : "tangents-RefineToTolerance");
    return;
  }
  int n = t.range(2, 3);
  Manifold r1 = sm.Refine(n), r2 = sm.Refine(2 * n);
  d << " .Refine(" << n << ") vs .Refine(" << 2 * n << ")";
  for (auto* r : {&r1, &r2}) {
    if (r->Status() != Manifold::Error::NoError) { o.fail("refine:tangent-status", verif::fmt("Status %d", int(r->Status()))); return; }
    oracle::TopoReport tr = oracle::CheckManifold(*r);
    if (!tr.ok) { o.fail("refine:tangents-" + tr.sig, tr.msg); return; }
  }
  MeshGL64 g0 = sm.GetMeshGL64(), g1 = r1.GetMeshGL64(), g2 = r2.GetMeshGL64();
  Soup s0 = oracle::MakeSoup(g0);
  double scale = s0.scale();
  auto p0 = VertPosSet(g0), p1 = VertPosSet(g1);
  for (auto& v : p0)
    if (!p1.count(v)) { o.fail("refine:tangent-original-vertex-moved", "an original vertex is not a vertex of the refined smooth mesh"); return; }
  // same barycentric point => same surface point: vertices of Refine(n) reappear in Refine(2n)
  Soup s2 = oracle::MakeSoup(g2);
  size_t stride = std::max<size_t>(1, g1.vertProperties.size() / g1.numProp / 80);
  for (size_t i = 0; i < g1.vertProperties.size(); i += g1.numProp * stride) {
    V3 p(g1.vertProperties[i], g1.vertProperties[i + 1], g1.vertProperties[i + 2]);
    double best = 1e300;
    for (auto& q : s2.v) best = std::min(best, oracle::norm(q - p));
    if (best > 1e-9 * scale) { o.fail("refine:interpolated-surface", verif::fmt("a vertex of Refine(%d) is %.3g away from every vertex of Refine(%d)", n, best, 2 * n)); return; }
  }
  if (r1.NumTri() != size_t(n) * n * sm.NumTri()) { o.fail("refine:tangent-triangle-count", ""); return; }
  o.nontrivial = true;
  o.cls("tangents-" + std::to_string(how));
}

void ModeSimplify(Tape& t, Outcome& o) {
  auto& d = o.desc;
  // redundantly tessellated piecewise-planar solid with feature size >= 0.5
  int kind = t.range(0, 2);
  Manifold base;
  if (kind == 0) { vec3 s(t.real(0.6, 2), t.real(0.6, 2), t.real(0.6, 2)); base = Manifold::Cube(s); d << "Cube"; }
  else if (kind == 1) { base = Manifold::Cube(vec3(2, 1, 1)) + Manifold::Cube(vec3(1, 2, 1)); d << "LatticeUnion"; }
  double featureSize = 0.5;  // smallest distance by which removing one vertex moves the surface
  if (kind == 2) {
    std::ostringstream sink;
    SimplePolygon star = gen::GenStar(t, 4, 7, 0.9, 1.3, sink, 0.3);
    base = Manifold::Extrude({star}, t.real(0.6, 1.5)); d << "Extrude(star)";
    // a nearly flat corner is a feature of size "sagitta": the distance of the vertex from the chord of its neighbours
    for (size_t i = 0; i < star.size(); ++i) {
      vec2 a = star[(i + star.size() - 1) % star.size()], b = star[i], c = star[(i + 1) % star.size()];
      vec2 ac = c - a;
      double sag = std::abs((b.x - a.x) * ac.y - (b.y - a.y) * ac.x) / std::max(1e-300, la::length(ac));
      featureSize = std::min(featureSize, sag);
    }
  }
  base = gen::GenPose(t, base, 0, d, 0.3);
  int n = t.range(2, 5);
  Manifold fine = t.flip() ? base.Refine(n) : base.RefineToLength(t.real(0.15, 0.5));
  d << " refined";
  if (fine.NumTri() > 6000) { o.exclude("too large"); return; }
  double tol = std::pow(10.0, t.real(-9, -1.2));  // below the feature size 0.5
  bool viaSet = t.flip();
  d << (viaSet ? " .SetTolerance(" : " .Simplify(") << gen::num(tol) << ")";
  Manifold s = viaSet ? fine.SetTolerance(tol) : fine.Simplify(tol);
  if (s.Status() != Manifold::Error::NoError) { o.fail("simplify:status", ""); return; }
  oracle::TopoReport tr = oracle::CheckManifold(s);
  if (!tr.ok) { o.fail("simplify:" + tr.sig, tr.msg); return; }
  MeshGL64 g0 = fine.GetMeshGL64(), g1 = s.GetMeshGL64();
  Soup s0 = oracle::MakeSoup(g0), s1 = oracle::MakeSoup(g1);
  double scale = s0.scale();
  if (s.NumTri() > fine.NumTri()) { o.fail("simplify:triangle-count-grew", verif::fmt("%zu -> %zu", fine.NumTri(), s.NumTri())); return; }
  // the statement bounds the surface motion by t ("in fact only by rounding"); it
  // does not promise bitwise vertex retention (edge merges may re-round a
  // position), so the kept vertices are checked against the old surface
  for (size_t i = 0; i < s1.v.size(); ++i)
    if (oracle::SurfaceDist(s0, s1.v[i]) > tol + 1e-10 * scale) { o.fail("simplify:new-vertex-off-surface", verif::fmt("simplified vertex %zu is %.3g off the original surface", i, oracle::SurfaceDist(s0, s1.v[i]))); return; }
  double v0 = oracle::Volume(s0), v1 = oracle::Volume(s1);
  // "the surface moves by no more than t (in fact only by rounding) when t is below the feature size":
  // rounding-only is demanded when t is well below the smallest feature, the bound t*area always
  const bool below = tol * 4 < featureSize;
  const double allowed = below ? 1e-11 * (std::abs(v0) + scale * scale * scale) : (tol + 1e-10 * scale) * oracle::Area(s0);
  if (std::abs(v1 - v0) > allowed) { o.fail("simplify:volume", verif::fmt("volume %.17g -> %.17g on a piecewise-planar solid (t=%.3g, smallest feature %.3g)", v0, v1, tol, featureSize)); return; }
  o.cls(below ? "t-below-feature-size" : "t-near-feature-size");
  size_t stride = std::max<size_t>(1, s0.v.size() / 80);
  for (size_t i = 0; i < s0.v.size(); i += stride)
    if (oracle::SurfaceDist(s1, s0.v[i]) > tol + 1e-10 * scale) { o.fail("simplify:hausdorff", verif::fmt("original vertex %zu is %.3g from the simplified surface (tolerance %.3g)", i, oracle::SurfaceDist(s1, s0.v[i]), tol)); return; }
  double eps = s.GetEpsilon();
  if (s.GetTolerance() < eps) { o.fail("simplify:tolerance-below-epsilon", ""); return; }
  if (viaSet) {
    double want = std::max(tol, fine.GetEpsilon());
    if (tol <= fine.GetTolerance()) want = std::max(fine.GetEpsilon(), tol);
    if (std::abs(s.GetTolerance() - want) > 1e-15 * (1 + want)) { o.fail("simplify:settolerance-value", verif::fmt("GetTolerance()=%.17g after SetTolerance(%.17g), epsilon %.17g", s.GetTolerance(), tol, fine.GetEpsilon())); return; }
  } else if (s.GetTolerance() != fine.GetTolerance()) { o.fail("simplify:tolerance-changed", "Simplify changed the stored tolerance"); return; }
  // lowering the tolerance never goes below epsilon
  Manifold low = s.SetTolerance(0);
  if (low.GetTolerance() < low.GetEpsilon() || low.GetTolerance() != std::max(low.GetEpsilon(), 0.0)) { o.fail("simplify:settolerance-floor", ""); return; }
  o.nontrivial = s.NumVert() < fine.NumVert();
  o.cls(s.NumVert() < fine.NumVert() ? "removed-vertices" : "noop");
  o.cls(viaSet ? "SetTolerance" : "Simplify");
}

void Body(Tape& t, Outcome& o) {
  int mode = t.range(0, 9);
  if (mode <= 4) ModeRefineFlat(t, o);
  else if (mode <= 6) ModeRefineTangents(t, o);
  else ModeSimplify(t, o);
  o.fingerprint = verif::fnv_str(o.desc.str());
}
}  // namespace

int main(int argc, char** argv) {
  verif::Config cfg{"C19", "refine",
                    "(flat) posed primitives / Boolean results with and without property channels through Refine(n<=6)/RefineToLength/RefineToTolerance: volume, area, bitwise retention of original vertices, new vertices on the old surface, n*n triangles, affine properties reproduced, closed-manifold predicate (every vertex referenced); (tangents) SmoothOut/SmoothByNormals/Smooth then Refine(n) vs Refine(2n): original vertices kept, equal barycentric points coincide; (simplify) redundantly refined boxes/lattice unions/star extrusions with tolerances 1e-9..0.06 below the feature size: triangle count does not grow, kept vertices on the old surface, volume unchanged, originals within t of the new surface, SetTolerance reports max(t,epsilon); (exhaustive) every triangle division triple <=12 (24) and quad quadruple <=6 (10) through Partition: corners, k/n boundary points, non-negative weights summing to 1, every vertex used, positive areas summing to the whole, edges paired; non-trivial = subdivision happened / vertex removed; distinct = case text",
                    12};
  return verif::run_main(argc, argv, cfg, Body, Enumerate);
}
