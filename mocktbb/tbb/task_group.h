#pragma once
#include "tbb/mock_all.h"
