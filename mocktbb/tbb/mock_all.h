// Single-threaded, schedule-controlled replacement for the part of oneTBB that
// manifold uses.  Every scheduling freedom TBB has (where a range is split,
// in which order chunks run, on which worker, whether a reduce/scan body is
// split off, in which order task_group tasks and combinable slots are
// visited) is taken from a decision tape owned by the harness, so a schedule
// is a generated, replayable, shrinkable input.  An exhausted tape means
// "do not split, run in order": schedules shrink towards serial execution.
// Only *legal* TBB schedules are produced (ranges are split through their own
// splitting constructor, bodies through the documented split / join /
// reverse_join / assign protocol).  No real concurrency: data races are out
// of scope here (see DESIGN.md).
#pragma once
#include <algorithm>
#include <cstddef>
#include <cstdint>
#include <functional>
#include <map>
#include <memory>
#include <utility>
#include <vector>

namespace mocktbb {
struct Schedule {
  std::vector<uint8_t> tape;
  size_t pos = 0;
  int workers = 1;         // virtual arena concurrency (1..16)
  int current_worker = 0;  // worker executing the current chunk
  // statistics for evidence
  long regions = 0, splitRegions = 0, outOfOrderRegions = 0, multiWorkerRegions = 0, bodySplits = 0, scanSplits = 0, tasksReordered = 0;
  // choice in [0,n).  The first decisions come from the tape; once it is used up
  // they continue from a generator seeded by the tape's contents, so that a long
  // execution (thousands of parallel regions) is still scheduled adversarially
  // instead of falling back to serial order.  An empty tape means pure serial.
  uint64_t prng = 0;
  uint32_t next(uint32_t n) {
    if (n <= 1) return 0;
    uint32_t v;
    if (pos < tape.size()) v = tape[pos++];
    else if (tape.empty()) v = 0;
    else { prng ^= prng << 13; prng ^= prng >> 7; prng ^= prng << 17; v = uint32_t(prng >> 24) & 0xFF; }
    return v % n;
  }
  bool chance(int num) { return int(next(256)) >= 256 - num ? true : false; }  // ~num/256, false when exhausted
  void reset(const uint8_t* d, size_t n, int w) { if (d && n) tape.assign(d, d + n); else tape.clear(); pos = 0; prng = 0x9E3779B97F4A7C15ull; for (auto b : tape) prng = (prng ^ b) * 1099511628211ull; prng |= 1; workers = std::max(1, w); current_worker = 0; regions = splitRegions = outOfOrderRegions = multiWorkerRegions = bodySplits = scanSplits = tasksReordered = 0; }
};
inline Schedule& sched() { static Schedule s; return s; }
}  // namespace mocktbb

namespace tbb {

struct split {};
struct pre_scan_tag { static bool is_final_scan() { return false; } operator bool() const { return false; } };
struct final_scan_tag { static bool is_final_scan() { return true; } operator bool() const { return true; } };

class affinity_partitioner {};
class auto_partitioner {};
class simple_partitioner {};
class static_partitioner {};

template <typename Value>
class blocked_range {
 public:
  using const_iterator = Value;
  using size_type = std::size_t;
  blocked_range(Value b, Value e, size_type grain = 1) : b_(b), e_(e), g_(grain ? grain : 1) {}
  blocked_range(blocked_range& r, split) : b_(r.b_), e_(r.e_), g_(r.g_) {
    Value m = r.b_ + (r.e_ - r.b_) / 2;
    b_ = m;
    r.e_ = m;
  }
  const_iterator begin() const { return b_; }
  const_iterator end() const { return e_; }
  size_type size() const { return size_type(e_ - b_); }
  size_type grainsize() const { return g_; }
  bool empty() const { return !(b_ < e_); }
  bool is_divisible() const { return g_ < size(); }

 private:
  Value b_, e_;
  size_type g_;
};

namespace detail {
// split `r` into leaf chunks at generated nodes (only through the range's own
// splitting constructor, only while is_divisible())
template <class Range>
void Chunks(Range r, std::vector<Range>& out, int depth = 0) {
  auto& s = mocktbb::sched();
  if (r.is_divisible() && depth < 12 && s.chance(depth == 0 ? 200 : 150)) {
    Range right(r, split());
    Chunks(r, out, depth + 1);
    Chunks(right, out, depth + 1);
  } else {
    out.push_back(r);
  }
}
}  // namespace detail

template <class Range, class Body>
void parallel_for(const Range& range, const Body& body) {
  auto& s = mocktbb::sched();
  ++s.regions;
  if (range.empty()) return;
  std::vector<Range> chunks;
  detail::Chunks(range, chunks);
  if (chunks.size() > 1) ++s.splitRegions;
  // generated execution order and worker assignment
  std::vector<size_t> order(chunks.size());
  for (size_t i = 0; i < order.size(); ++i) order[i] = i;
  bool ooo = false;
  for (size_t i = 0; i + 1 < order.size(); ++i) {
    size_t j = i + s.next(uint32_t(order.size() - i));
    if (j != i) { std::swap(order[i], order[j]); ooo = true; }
  }
  if (ooo) ++s.outOfOrderRegions;
  int saved = s.current_worker;
  bool multi = false;
  for (size_t i : order) {
    s.current_worker = int(s.next(uint32_t(s.workers)));
    multi |= s.current_worker != saved;
    body(chunks[i]);
  }
  if (multi) ++s.multiWorkerRegions;
  s.current_worker = saved;
}
template <class Range, class Body, class Partitioner>
void parallel_for(const Range& range, const Body& body, Partitioner&&) { parallel_for(range, body); }

template <class F1, class F2>
void parallel_invoke(const F1& f1, const F2& f2) {
  auto& s = mocktbb::sched();
  int saved = s.current_worker;
  if (s.chance(128)) { ++s.tasksReordered; s.current_worker = int(s.next(uint32_t(s.workers))); f2(); s.current_worker = saved; f1(); }
  else { f1(); s.current_worker = int(s.next(uint32_t(s.workers))); f2(); s.current_worker = saved; }
}

// ---- parallel_reduce, imperative form: Body(Body&, split), operator()(range), join(Body&)
namespace detail {
template <class Range, class Body>
void ReduceRec(Range r, Body& body, int depth) {
  auto& s = mocktbb::sched();
  if (r.is_divisible() && depth < 12 && s.chance(depth == 0 ? 200 : 150)) {
    Range right(r, split());
    if (s.chance(128)) {
      // the right half is "stolen": a split body processes it, in either order, then joins
      ++s.bodySplits;
      Body rb(body, split());
      if (s.chance(128)) { ReduceRec(right, rb, depth + 1); ReduceRec(r, body, depth + 1); }
      else { ReduceRec(r, body, depth + 1); ReduceRec(right, rb, depth + 1); }
      body.join(rb);
    } else {
      ReduceRec(r, body, depth + 1);
      ReduceRec(right, body, depth + 1);
    }
  } else {
    body(r);
  }
}
template <class Range, class T, class Func, class Red>
T ReduceFn(Range r, T value, const T& identity, const Func& f, const Red& red, int depth) {
  auto& s = mocktbb::sched();
  if (r.is_divisible() && depth < 12 && s.chance(depth == 0 ? 200 : 150)) {
    Range right(r, split());
    if (s.chance(128)) {
      ++s.bodySplits;
      T vr = identity, vl = value;
      if (s.chance(128)) { vr = ReduceFn(right, identity, identity, f, red, depth + 1); vl = ReduceFn(r, value, identity, f, red, depth + 1); }
      else { vl = ReduceFn(r, value, identity, f, red, depth + 1); vr = ReduceFn(right, identity, identity, f, red, depth + 1); }
      return red(vl, vr);
    }
    value = ReduceFn(r, value, identity, f, red, depth + 1);
    return ReduceFn(right, value, identity, f, red, depth + 1);
  }
  return f(r, value);
}
}  // namespace detail

template <class Range, class Body>
void parallel_reduce(const Range& range, Body& body) {
  ++mocktbb::sched().regions;
  if (range.empty()) return;
  detail::ReduceRec(range, body, 0);
}
template <class Range, class T, class Func, class Red>
T parallel_reduce(const Range& range, const T& identity, const Func& f, const Red& red) {
  ++mocktbb::sched().regions;
  if (range.empty()) return identity;
  return detail::ReduceFn(range, identity, identity, f, red, 0);
}

// ---- parallel_scan, imperative form
namespace detail {
template <class Range, class Body>
Body* ScanRec(Range r, Body* x, std::vector<std::unique_ptr<Body>>& pool, int depth) {
  auto& s = mocktbb::sched();
  if (r.is_divisible() && depth < 10 && s.chance(depth == 0 ? 200 : 150)) {
    Range right(r, split());
    if (s.chance(128)) {
      // P is split from the carrier X, pre-scans the left half, takes over X's
      // summary with reverse_join (X still holds exactly "everything before L"),
      // and becomes the carrier for the right half; X final-scans the left half.
      ++s.scanSplits;
      pool.emplace_back(new Body(*x, split()));
      Body* p = pool.back().get();
      (*p)(r, pre_scan_tag());
      p->reverse_join(*x);
      Body* total;
      if (s.chance(128)) { total = ScanRec(right, p, pool, depth + 1); ScanRec(r, x, pool, depth + 1); }
      else { ScanRec(r, x, pool, depth + 1); total = ScanRec(right, p, pool, depth + 1); }
      return total;
    }
    x = ScanRec(r, x, pool, depth + 1);
    return ScanRec(right, x, pool, depth + 1);
  }
  (*x)(r, final_scan_tag());
  return x;
}
template <class Range, class T, class Scan, class Comb>
struct FnScanBody {
  T sum;
  const T& identity;
  const Scan& scan;
  const Comb& comb;
  FnScanBody(const T& id, const Scan& s, const Comb& c) : sum(id), identity(id), scan(s), comb(c) {}
  FnScanBody(FnScanBody& b, split) : sum(b.identity), identity(b.identity), scan(b.scan), comb(b.comb) {}
  template <class Tag>
  void operator()(const Range& r, Tag) { sum = scan(r, sum, Tag::is_final_scan()); }
  void reverse_join(FnScanBody& a) { sum = comb(a.sum, sum); }
  void assign(FnScanBody& b) { sum = b.sum; }
};
}  // namespace detail

template <class Range, class Body>
void parallel_scan(const Range& range, Body& body) {
  ++mocktbb::sched().regions;
  if (range.empty()) return;
  std::vector<std::unique_ptr<Body>> pool;
  Body* total = detail::ScanRec(range, &body, pool, 0);
  if (total != &body) body.assign(*total);
}
template <class Range, class T, class Scan, class Comb>
T parallel_scan(const Range& range, const T& identity, const Scan& scan, const Comb& comb) {
  detail::FnScanBody<Range, T, Scan, Comb> body(identity, scan, comb);
  parallel_scan(range, body);
  return body.sum;
}

// ---- combinable: one slot per virtual worker (T need not be movable)
template <class T>
class combinable {
 public:
  combinable() : init_([] { return T(); }) {}
  template <class F>
  explicit combinable(F f) : init_(f) {}
  T& local() {
    int w = mocktbb::sched().current_worker;
    auto it = slots_.find(w);
    if (it == slots_.end()) it = slots_.emplace(w, std::unique_ptr<T>(new T(init_()))).first;
    return *it->second;
  }
  T& local(bool& exists) {
    exists = slots_.count(mocktbb::sched().current_worker) != 0;
    return local();
  }
  template <class F>
  void combine_each(F f) {
    std::vector<T*> v = order();
    for (T* p : v) f(*p);
  }
  template <class F>
  T combine(F f) {
    std::vector<T*> v = order();
    if (v.empty()) return init_();
    T acc = *v[0];
    for (size_t i = 1; i < v.size(); ++i) acc = f(acc, *v[i]);
    return acc;
  }
  void clear() { slots_.clear(); }

 private:
  std::vector<T*> order() {  // generated visiting order
    std::vector<T*> v;
    for (auto& kv : slots_) v.push_back(kv.second.get());
    auto& s = mocktbb::sched();
    for (size_t i = 0; i + 1 < v.size(); ++i) std::swap(v[i], v[i + s.next(uint32_t(v.size() - i))]);
    return v;
  }
  std::function<T()> init_;
  std::map<int, std::unique_ptr<T>> slots_;
};

// ---- task_group: run() queues, wait() executes in a generated order
class task_group {
 public:
  template <class F>
  void run(F&& f) { q_.emplace_back(std::forward<F>(f)); }
  void wait() {
    auto& s = mocktbb::sched();
    int saved = s.current_worker;
    while (!q_.empty()) {
      size_t j = s.next(uint32_t(q_.size()));
      if (j != 0) ++s.tasksReordered;
      auto f = std::move(q_[j]);
      q_.erase(q_.begin() + j);
      s.current_worker = int(s.next(uint32_t(s.workers)));
      f();
    }
    s.current_worker = saved;
  }
  ~task_group() { wait(); }

 private:
  std::vector<std::function<void()>> q_;
};

namespace this_task_arena {
template <class F>
auto isolate(const F& f) -> decltype(f()) { return f(); }
inline int max_concurrency() { return mocktbb::sched().workers; }
}  // namespace this_task_arena

// ---- concurrent containers (single-threaded: ordered map semantics)
template <class K, class V, class C = std::less<K>>
class concurrent_map : public std::map<K, V, C> {
 public:
  using std::map<K, V, C>::map;
};
// (manifold only uses operator[], find and end on it: no iteration order to vary)
template <class K, class V>
class concurrent_unordered_map : public std::map<K, V> {
 public:
  using std::map<K, V>::map;
};

}  // namespace tbb
