#!/usr/bin/env python3
"""tools/import_seeded.py <ID> <k> "<needs>"  - copy a confirmed agent change into /verif/seeded/<ID>-<k>/"""
import json, os, shutil, sys
ID, k, needs = sys.argv[1], sys.argv[2], sys.argv[3]
src = f"/var/tmp/wt/out_{ID}/change{k}"
conf = f"/var/tmp/wt/confirm_{ID}_{k}.txt"
c = open(conf).read()
ok = "demo_on_original_exit=0" in c and "build_with_change=ok" in c and "100% tests passed" in c and "demo_on_changed_exit=0" not in c and "demo_on_changed_exit=" in c
if not ok:
    print("NOT CONFIRMED:", c[-300:]); sys.exit(1)
dst = f"/verif/seeded/{ID}-{k}"
os.makedirs(dst, exist_ok=True)
shutil.copy(f"{src}/patch.diff", f"{dst}/patch.diff")
shutil.copy(f"{src}/demo.cpp", f"{dst}/demo.cpp")
if os.path.exists(f"{src}/NOTES.md"): shutil.copy(f"{src}/NOTES.md", f"{dst}/NOTES.md")
meta = {"property": ID, "checks": [ID], "source": "sub-agent given only the property text and a private worktree",
        "needs": needs,
        "confirmed_by": "tools/confirm_seeded.sh in a scratch worktree of /repo: baseline builds, demo exits 0; with the patch the build succeeds, ctest reports 100% of 552 tests passed, demo exits non-zero",
        "confirmation_log": c.strip().splitlines()}
json.dump(meta, open(f"{dst}/meta.json", "w"), indent=1)
print("imported", dst)
