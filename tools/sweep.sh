#!/bin/sh
# usage: tools/sweep.sh <tier> <seed> [ids...]   -- runs checks with a seed, prints one summary line each
tier=$1; seed=$2; shift 2
ids="$@"
[ -z "$ids" ] && ids=$(python3 -c "import checks_table; print(' '.join(sorted(checks_table.CHECKS)))")
for id in $ids; do
  VERIF_SEED=$seed ./check $id --tier $tier 2>&1 | grep -E "^\[$id|^VIOLATION|BUILD-ERROR|FLAKY" | cut -c1-300
done
