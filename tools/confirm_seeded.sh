#!/bin/bash
# usage: tools/confirm_seeded.sh <ID> <k>   -- confirms an agent's change in a scratch worktree, writes result to /var/tmp/wt/confirm_<ID>_<k>.txt
ID=$1; K=$2
SRC=/var/tmp/wt/out_$ID/change$K
WT=/var/tmp/wt/confirm_$ID
OUT=/var/tmp/wt/confirm_${ID}_$K.txt
: > $OUT
cd /repo
[ -d $WT ] || git worktree add -q --detach $WT HEAD
cd $WT && git checkout -q -- . 
[ -d _build ] || cmake -G Ninja -B _build -DCMAKE_BUILD_TYPE=RelWithDebInfo -DMANIFOLD_PAR=${PAR:-OFF} -DMANIFOLD_CBIND=ON -DMANIFOLD_TEST=ON -DFETCHCONTENT_SOURCE_DIR_GOOGLETEST=/usr/src/googletest -DFETCHCONTENT_TRY_FIND_PACKAGE_MODE=ALWAYS -DCMAKE_CXX_FLAGS=-Wno-error > /dev/null 2>&1
cmake --build _build -j8 > /dev/null 2>&1 || { echo "baseline build failed" >> $OUT; exit 1; }
LIB=$(ls _build/src/libmanifold.* | head -1)
g++ -std=c++17 -O1 ${DEMOFLAGS:--DMANIFOLD_PAR=-1} -I include -I src -I bindings/c/include $SRC/demo.cpp $LIB ${DEMOLIBS:-} -Wl,-rpath,$WT/_build/src -Wl,-rpath,$WT/_build/bindings/c -o /tmp/demo_${ID}_$K 2>> $OUT || { echo "demo build failed (orig)" >> $OUT; }
/tmp/demo_${ID}_$K > /dev/null 2>&1; echo "demo_on_original_exit=$?" >> $OUT
git apply $SRC/patch.diff || { echo "patch does not apply" >> $OUT; exit 1; }
cmake --build _build -j8 > /dev/null 2>&1 && echo "build_with_change=ok" >> $OUT || echo "build_with_change=FAILED" >> $OUT
ctest --test-dir _build -j8 --timeout 1800 2>&1 | grep -E "tests passed|tests failed|\*\*\*Failed|\*\*\*Timeout|Failed  |Timeout " | head -8 >> $OUT
g++ -std=c++17 -O1 ${DEMOFLAGS:--DMANIFOLD_PAR=-1} -I include -I src -I bindings/c/include $SRC/demo.cpp $LIB ${DEMOLIBS:-} -Wl,-rpath,$WT/_build/src -Wl,-rpath,$WT/_build/bindings/c -o /tmp/demo_${ID}_$K 2>> $OUT
/tmp/demo_${ID}_$K > /dev/null 2>&1; echo "demo_on_changed_exit=$?" >> $OUT
git checkout -q -- .
rm -f /tmp/demo_${ID}_$K
cat $OUT
