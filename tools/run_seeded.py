#!/usr/bin/env python3
"""Apply every seeded change under /verif/seeded to /repo in turn, run the quick
check of the property it targets, restore /repo, and record which were caught.

  tools/run_seeded.py [<name> ...]        # default: all of seeded/*

Writes seeded/results.json (merged with earlier results) and seeded/RESULTS.md.
/repo must be clean when this starts; it is restored with `git checkout -- .`
after every change.  Evidence files written by these runs describe a mutated
tree, so the evidence of the touched properties is regenerated afterwards by
running the checks again on the clean tree (tools/sweep.sh or ./check).
"""
import json, os, subprocess, sys, time

V = "/verif"
os.chdir(V)


def sh(cmd, **kw):
    return subprocess.run(cmd, shell=True, text=True, stdout=subprocess.PIPE, stderr=subprocess.STDOUT, **kw)


def main():
    names = sys.argv[1:] or sorted(d for d in os.listdir(f"{V}/seeded") if os.path.isdir(f"{V}/seeded/{d}"))
    if sh("git -C /repo status --porcelain --untracked-files=no").stdout.strip():
        print("refusing: /repo has uncommitted changes")
        sys.exit(2)
    rp = f"{V}/seeded/results.json"
    results = json.load(open(rp)) if os.path.exists(rp) else {}
    for n in names:
        d = f"{V}/seeded/{n}"
        meta = json.load(open(f"{d}/meta.json"))
        r = sh(f"git -C /repo apply {d}/patch.diff")
        if r.returncode != 0:
            results[n] = {"property": meta["property"], "status": "patch-does-not-apply", "detail": r.stdout[-300:]}
            print(n, "patch does not apply")
            continue
        t0 = time.time()
        caught, lines = False, []
        try:
            for cid in meta.get("checks", [meta["property"]]):
                out = sh(f"./check {cid}").stdout
                v = [l for l in out.splitlines() if l.startswith("VIOLATION")]
                lines += [l[:260] for l in v[:3]]
                if v:
                    caught = True
                    break
        finally:
            sh("git -C /repo checkout -- .")
        results[n] = {"property": meta["property"], "status": "caught" if caught else "missed", "violations": lines,
                      "seconds": round(time.time() - t0), "repo_head": sh("git -C /repo rev-parse --short HEAD").stdout.strip(),
                      "verif_head": sh("git -C /verif rev-parse --short HEAD").stdout.strip()}
        print(n, results[n]["status"], lines[:1])
        json.dump(results, open(rp, "w"), indent=1)
    # table
    rows = ["# Seeded changes: which check catches which", "",
            "Each change compiles and passes the 552 pinned tests (re-confirmed, see meta.json). `caught` = the quick tier of the",
            "named check printed a VIOLATION line with the change applied to /repo (tools/run_seeded.py).", "",
            "| change | property | needs to manifest | result | signature |", "|---|---|---|---|---|"]
    for n in sorted(results):
        mp = f"{V}/seeded/{n}/meta.json"
        meta = json.load(open(mp)) if os.path.exists(mp) else {}
        r = results[n]
        sig = ""
        if r.get("violations"):
            sig = r["violations"][0].split("sig=")[-1][:90].replace("|", "/")
        rows.append(f"| {n} | {r['property']} | {meta.get('needs', '')[:160].replace('|', '/')} | {r['status']} | {sig} |")
    open(f"{V}/seeded/RESULTS.md", "w").write("\n".join(rows) + "\n")


main()
