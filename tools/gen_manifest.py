#!/usr/bin/env python3
"""Regenerates MANIFEST.json from checks_table.py (claimed properties) and
properties.jsonl (everything else goes to not_applicable with its reason)."""
import json, os, sys
V = os.path.dirname(os.path.dirname(os.path.abspath(__file__)))
sys.path.insert(0, V)
import checks_table
props = [json.loads(l) for l in open(f"{V}/properties.jsonl")]
TEXT = checks_table.MANIFEST_TEXT
hooks_commits = getattr(checks_table, "HOOK_COMMITS", [])
m = {
    "version": 1,
    "setup_cmd": "./setup.sh",
    "hooks": {"guard": "MANIFOLD_VERIF",
              "enable": "build.mk compiles /repo/src (current working tree) with -DMANIFOLD_VERIF into /verif/build/<variant>/; the pinned /repo/_build never defines it",
              "baseline_off_cmd": "cmake --build /repo/_build -j16 && ctest --test-dir /repo/_build -j16 --timeout 900",
              "source_commits": hooks_commits, "add_only": True},
    "engines": [
        {"name": "rapidcheck-tape", "path": "harness/common/runner.cpp", "serves_properties": sorted(checks_table.CHECKS),
         "kind_free_text": "rapidcheck generates and shrinks byte tapes; per-property structure-aware decoders (harness/gen) + independent oracles (harness/oracle); saved tapes replay without the library; ASan+UBSan builds of /repo's working tree"},
    ],
    "checks": [], "not_applicable": [],
    "notes": "Every check: ./check <id> --tier quick|thorough. Fixed defects and known findings: known_findings.json. Design: DESIGN.md.",
}
for p in props:
    pid = p["id"]
    if pid in checks_table.CHECKS:
        tx = TEXT[pid]
        m["checks"].append({
            "property_id": pid, "quick_cmd": f"./check {pid} --tier quick", "thorough_cmd": f"./check {pid} --tier thorough",
            "evidence_file": f"evidence/{pid}.json", "replay_cmd_template": f"./check {pid} --replay {{path}}",
            "engine": "rapidcheck-tape",
            "level_claimed": {"category": "exploration", "text": tx["text"], "design_ref": f"DESIGN.md Part B {pid}"},
            "level_note": tx["note"], "technique": tx["technique"]})
    else:
        m["not_applicable"].append({"property_id": pid, "reason": checks_table.NOT_CLAIMED.get(pid, "check not built yet in this session; not claimed")})
json.dump(m, open(f"{V}/MANIFEST.json", "w"), indent=1)
print("claimed:", [c["property_id"] for c in m["checks"]])
