#!/bin/sh
# usage: tools/try_patch.sh <patch> <Cxx> [more ids]  -- applies patch to /repo, runs quick checks, reverts
p=$1; shift
cd /repo && git apply "$p" || { echo "APPLY FAILED"; exit 2; }
cd /verif
for id in "$@"; do
  rm -rf failures/$id
  ./check $id 2>&1 | grep -E "^\[$id|^VIOLATION|BUILD-ERROR" | cut -c1-260
done
cd /repo && git checkout -- . && echo reverted
