"""Property -> sub-checks.  Each sub-check is one harness binary (harness/<bin>.cpp)
built in one variant (build.mk).  n = total generated cases per tier (split
over all cores, seeds VERIF_SEED*1000+i), size = rapidcheck max_size."""

CHECKS = {
    "C02": {
        "subs": [
            {"name": "lattice", "bin": "c02_lattice", "variant": "asan",
             "quick": {"n": 48000, "size": 100}, "thorough": {"n": 2000000, "size": 150}},
        ],
        "assumptions": [
            "classification is sampled at generated points (cell centres for lattice programs)",
            "oracle code (solid-angle winding, voxel sets) is independent of the library and was unit-checked",
        ],
    },
}
