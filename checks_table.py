"""Property -> sub-checks.  Each sub-check is one harness binary (harness/<bin>.cpp)
built in one variant (build.mk).  n = total generated cases per tier (split
over all cores, seeds VERIF_SEED*1000+i), size = rapidcheck max_size."""

CHECKS = {
    "C01": {
        "subs": [
            {"name": "programs", "bin": "c01_programs", "variant": "asan",
             "quick": {"n": 4800, "size": 100}, "thorough": {"n": 400000, "size": 160}},
        ],
        "assumptions": [
            "programs use valid arguments only (malformed arguments belong to C09); degenerate geometry is generated on purpose",
            "judged in the ASan+UBSan release configuration (MANIFOLD_PAR=-1, no MANIFOLD_DEBUG)",
        ],
    },
    "C02": {
        "subs": [
            {"name": "lattice", "bin": "c02_lattice", "variant": "asan",
             "quick": {"n": 48000, "size": 100}, "thorough": {"n": 2000000, "size": 150}},
            {"name": "general", "bin": "c02_general", "variant": "asan",
             "quick": {"n": 8000, "size": 100}, "thorough": {"n": 300000, "size": 150}},
        ],
        "assumptions": [
            "classification is sampled at generated points (cell centres for lattice programs)",
            "oracle code (solid-angle winding, voxel sets) is independent of the library and was unit-checked",
        ],
    },
}
