"""Property -> sub-checks.  Each sub-check is one harness binary (harness/<bin>.cpp)
built in one variant (build.mk).  n = total generated cases per tier (split
over all cores, seeds VERIF_SEED*1000+i), size = rapidcheck max_size."""

CHECKS = {
    "C01": {
        "subs": [
            {"name": "programs", "bin": "c01_programs", "variant": "asan",
             "quick": {"n": 4800, "size": 100}, "thorough": {"n": 400000, "size": 160}},
        ],
        "assumptions": [
            "programs use valid arguments only (malformed arguments belong to C09); degenerate geometry is generated on purpose",
            "judged in the ASan+UBSan release configuration (MANIFOLD_PAR=-1, no MANIFOLD_DEBUG)",
        ],
    },
    "C02": {
        "subs": [
            {"name": "lattice", "bin": "c02_lattice", "variant": "asan",
             "quick": {"n": 48000, "size": 100}, "thorough": {"n": 2000000, "size": 150}},
            {"name": "general", "bin": "c02_general", "variant": "asan",
             "quick": {"n": 8000, "size": 100}, "thorough": {"n": 300000, "size": 150}},
        ],
        "assumptions": [
            "classification is sampled at generated points (cell centres for lattice programs)",
            "oracle code (solid-angle winding, voxel sets) is independent of the library and was unit-checked",
        ],
    },
    "C14": {
        "subs": [
            {"name": "spatial", "bin": "c14_spatial", "variant": "asan",
             "quick": {"n": 16000, "size": 100}, "thorough": {"n": 3000000, "size": 150}},
            {"name": "enum", "bin": "c14_spatial", "variant": "asan", "mode": "exhaustive",
             "quick": {"level": 0}, "thorough": {"level": 1}},
        ],
        "assumptions": ["oracle = all-pairs scan with own closed-interval overlap; shared-endpoint skip rule re-implemented from its comment"],
    },
    "C10": {
        "subs": [
            {"name": "triangulate", "bin": "c10_triangulate", "variant": "asan",
             "quick": {"n": 48000, "size": 100}, "thorough": {"n": 3000000, "size": 160}},
        ],
        "assumptions": ["inputs are epsilon-valid by construction (no filtering); CCW tolerance 2*eps as in the library's own debug check"],
    },
    "C11": {
        "subs": [
            {"name": "cross", "bin": "c11_cross", "variant": "asan",
             "quick": {"n": 6400, "size": 100}, "thorough": {"n": 400000, "size": 150}},
        ],
        "assumptions": ["classification sampled at generated points farther than 64*tol+1e-9*scale from input edges"],
    },
    "C12": {
        "subs": [
            {"name": "offset", "bin": "c12_offset", "variant": "asan",
             "quick": {"n": 160000, "size": 100}, "thorough": {"n": 2000000, "size": 150}},
        ],
        "assumptions": ["Round offsets judged outside the chordal band |delta|(1-cos(pi/segments)) + guard; Bevel joins are exempt from the round-dilation containment (their chord cuts inside the delta-circle)"],
    },
    "C18": {
        "subs": [
            {"name": "measure", "bin": "c18_measure", "variant": "asan",
             "quick": {"n": 6400, "size": 100}, "thorough": {"n": 300000, "size": 150}},
        ],
        "assumptions": ["query arguments in general position: segments with a brute-force hit within 1e-6 (barycentric) of an edge or 1e-9 of an end are skipped and counted; points within 64*tol+1e-9*scale of the surface are skipped"],
    },
    "C17": {
        "subs": [
            {"name": "construct", "bin": "c17_construct", "variant": "asan",
             "quick": {"n": 9600, "size": 100}, "thorough": {"n": 400000, "size": 150}},
        ],
        "assumptions": ["faceting bands are derived per shape (sphere: conservative inscribed radius; extrude: |delta edge|/4 per layer; revolve and frustum: exact facet geometry; LevelSet: 1.5*edgeLength) and points inside the band are skipped and counted",
                        "NaN/garbage arguments are C09's domain; only documented-invalid arguments are expected to give InvalidConstruction"],
    },
    "C16": {
        "subs": [
            {"name": "hull", "bin": "c16_hull", "variant": "asan",
             "quick": {"n": 8000, "size": 100}, "thorough": {"n": 400000, "size": 150}},
        ],
        "assumptions": ["hull containment tolerance 2e-7*scale (quickhull's own epsilon is 1e-7*scale); point sets that are neither exactly degenerate nor span a tetrahedron > 1e-6*scale^3 are unclassified and counted"],
    },
    "C19": {
        "subs": [
            {"name": "refine", "bin": "c19_refine", "variant": "asan",
             "quick": {"n": 2400, "size": 100}, "thorough": {"n": 200000, "size": 150}},
            {"name": "partitions", "bin": "c19_refine", "variant": "asan", "mode": "exhaustive",
             "quick": {"level": 0}, "thorough": {"level": 1}},
        ],
        "assumptions": ["Partition is reached by including src/subdivision.cpp in the harness TU", "simplification is judged on piecewise-planar solids with tolerances below the feature size, as the statement says"],
    },
    "C08": {
        "subs": [
            {"name": "roundtrip", "bin": "c08_roundtrip", "variant": "asan",
             "quick": {"n": 4800, "size": 100}, "thorough": {"n": 300000, "size": 150}},
        ],
        "assumptions": ["library-assigned and user face IDs are compared exactly after the first import (they are user-supplied from then on); an absent run transform means identity"],
    },
    "C03": {
        "subs": [
            {"name": "csg", "bin": "c03_csg", "variant": "asan",
             "quick": {"n": 4800, "size": 100}, "thorough": {"n": 300000, "size": 150}},
        ],
        "assumptions": ["transforms inside the DAG are rigid motions, mirrors and uniform scales so that guards transform exactly; leaves are posed primitives (epsilon-valid, general position by construction)"],
    },
    "C05": {
        "subs": [
            {"name": "values", "bin": "c05_values", "variant": "asan",
             "quick": {"n": 3200, "size": 100}, "thorough": {"n": 200000, "size": 150}},
            {"name": "cancel-values", "bin": "c05_cancel", "variant": "asan",
             "quick": {"n": 3200, "size": 100}, "thorough": {"n": 100000, "size": 150}},
        ],
        "assumptions": ["the lazily/eagerly observed twin runs are compared as solids (Status, emptiness, volume) and only for values that do not depend on a triangulation (no Warp/Refine/Smooth/Simplify/float re-import upstream)"],
    },
    "C09": {
        "subs": [
            {"name": "malformed", "bin": "c09_malformed", "variant": "asan",
             "quick": {"n": 24000, "size": 100}, "thorough": {"n": 800000, "size": 160}},
            {"name": "libfuzzer", "bin": "c09_malformed", "variant": "fuzz", "mode": "fuzz", "replay_sub": "malformed",
             "thorough": {"seconds": 900, "jobs": 16}},
        ],
        "assumptions": ["finite geometric arguments stay below 1e150 in magnitude (overflow of products of astronomically large finite coordinates is not generated); MeshGL fields do get DBL_MAX-scale values",
                        "documented-large requests (tiny refine lengths, huge LevelSet grids, >4096 segments) are excluded and counted; non-termination would show only as a time-out (inconclusive)",
                        "the 32-bit export is not required to be finite when a 64-bit value exceeds 1e30 (float overflow is inherent)"],
    },
    "C15": {
        "subs": [
            {"name": "cancel", "bin": "c15_cancel", "variant": "asan",
             "quick": {"n": 1600, "size": 100}, "thorough": {"n": 60000, "size": 150}},
        ],
        "assumptions": ["serial build (MANIFOLD_PAR=-1): the k-th cancellation check is a deterministic site; the oracle itself does not depend on which site it is"],
    },
    "C13": {
        "subs": [
            {"name": "parallel", "bin": "c13_parallel", "variant": "mock",
             "quick": {"n": 9600, "size": 100}, "thorough": {"n": 600000, "size": 150}},
            {"name": "parallel-tbb", "bin": "c13_parallel", "variant": "par", "search_sub": "parallel",
             "quick": {"n": 3200, "size": 100, "procs": 4}, "thorough": {"n": 100000, "size": 150, "procs": 4}},
            {"name": "containers", "bin": "c13_containers", "variant": "asan",
             "quick": {"n": 16000, "size": 100}, "thorough": {"n": 1000000, "size": 150}},
            {"name": "containers-enum", "bin": "c13_containers", "variant": "asan", "mode": "exhaustive",
             "quick": {"level": 0}, "thorough": {"level": 1}},
        ],
        "assumptions": ["mock TBB executes legal schedules on one thread: order/slot/tree dependence is decided, true data races inside loops are only sampled by the real-TBB sub-check",
                        "container interleavings are sequentially consistent (one worker runs at a time); weak-memory effects are out of reach",
                        "reduce is called with commutative+associative operations, as its contract requires"],
    },
    "C04": {
        "subs": [
            {"name": "determinism", "bin": "c04_determinism", "variant": "mock",
             "also_build": [{"variant": "seq", "bin": "c04_determinism"}],
             "env": {"VERIF_C04_SEQ": "{VERIF}/build/seq/bin/c04_determinism", "VERIF_C04_MAXSEG": "256"},
             "quick": {"n": 640, "size": 100}, "thorough": {"n": 40000, "size": 150, "env": {"VERIF_C04_MAXSEG": "512"}}},
            {"name": "determinism-tbb", "bin": "c04_determinism", "variant": "par", "search_sub": "determinism",
             "also_build": [{"variant": "seq", "bin": "c04_determinism"}],
             "env": {"VERIF_C04_SEQ": "{VERIF}/build/seq/bin/c04_determinism", "VERIF_C04_MAXSEG": "256"},
             "quick": {"n": 160, "size": 100, "procs": 4}, "thorough": {"n": 6000, "size": 150, "procs": 4, "env": {"VERIF_C04_MAXSEG": "512"}}},
        ],
        "assumptions": ["mock TBB is single-threaded: dependence on chunking/order/worker slot/reduction tree is decided, data races inside loops are only sampled by the real-TBB sub-check (worker counts 1,2,3,5,8,16)",
                        "mesh IDs are relabelled by first appearance before comparing (the ID counter is process-global)",
                        "the quick tier caps the operand size at 32768 triangles (the 131072-triangle class above the 1e5 gates runs in the thorough tier)"],
    },
    "C07": {
        "subs": [
            {"name": "provenance", "bin": "c07_provenance", "variant": "asan",
             "quick": {"n": 9600, "size": 100}, "thorough": {"n": 400000, "size": 150}},
        ],
        "assumptions": ["instances are in general position by construction (two instances never share a transform); coincident instances of one original are not generated",
                        "property fields are affine in position, or arbitrary per vertex with per-triangle face IDs - the two cases in which the statement promises exact interpolation"],
    },
    "C20": {
        "subs": [
            {"name": "cbinding", "bin": "c20_cbinding", "variant": "cbind",
             "env": {"ASAN_OPTIONS": "detect_leaks=1:leak_check_at_exit=0:abort_on_error=0:exitcode=77:allocator_may_return_null=1:quarantine_size_mb=8:malloc_context_size=6"},
             "quick": {"n": 32000, "size": 100}, "thorough": {"n": 400000, "size": 160}},
        ],
        "assumptions": ["manifold_compose is mirrored by BatchBoolean(Add): Manifold::Compose is deprecated in manifold.h in favour of exactly that call, which is what the binding does",
                        "error codes that no C entry point can produce (PropertiesWrongLength, MergeVectorsDifferentLengths, TransformWrongLength, FaceIDWrongLength, ResultTooLarge) are not reached; the others are produced by malformed arrays, bad constructor arguments and cancelled contexts",
                        "both twins run in one process on the serial backend; mesh IDs come from one global counter and are compared up to relabelling by first appearance"],
    },
    "C06": {
        "subs": [
            {"name": "threads", "bin": "c06_threads", "variant": "tsan", "schedule_dependent": True,
             "quick": {"n": 4800, "size": 100, "procs": 8}, "thorough": {"n": 120000, "size": 150, "procs": 8}},
        ],
        "assumptions": ["the build uses the serial backend (MANIFOLD_PAR=-1) so that the only threads are the client threads and every lock/atomic of the library is instrumented; TBB-internal synchronisation is not visible to ThreadSanitizer and is covered by C13/C04 instead",
                        "schedules are those the OS produces for 2-8 real threads started at a barrier with generated spin delays (not enumerated); a race report is sound but its absence is not a proof",
                        "values are compared with 9+N sampled op-level serial orders and accepted when any of them produced the same value; a mismatch must reproduce in 3/3 replays to be reported"],
    },
}

PBT = "property-based testing (rapidcheck byte-tape generators, shrinking, replay files)"
MANIFEST_TEXT = {
    "C01": {"text": "generated stateful programs of public operations; every returned Manifold judged by an independent closed-oriented-2-manifold predicate on its export, under ASan+UBSan",
            "note": "sampled programs; predicate written from the statement (union-find over merge vectors, directed-edge multiset); valid arguments only",
            "technique": PBT + " with a validity predicate + sanitizers"},
    "C02": {"text": "generated lattice CSG programs judged against a voxel reference model (exact volume, every cell centre), and general-position Booleans/splits/plane cuts judged point-wise against the set formula with an independent solid-angle winding number plus inclusion-exclusion identities",
            "note": "sampled, not exhaustive; classification at generated points away from surfaces",
            "technique": PBT + " against a reference model and metamorphic volume identities"},
    "C10": {"text": "constructively epsilon-valid polygon sets through Triangulate/TriangulateIdx with the statement itself as validity predicate (count, CCW, area, edge multiset), allowConvex on/off, triangulator reuse differential",
            "note": "nesting depth <= 3; termination observed only as absence of a hang", "technique": PBT + " with a validity predicate"},
    "C11": {"text": "arbitrary contour sets and 2D Boolean programs judged by an independent crossing-count winding number; lattice rectangles judged exactly against a pixel model",
            "note": "sampled points; regularity checked by pairwise proper-crossing test for outputs <= 400 edges", "technique": PBT + " against reference models (winding number, pixel sets)"},
    "C14": {"text": "Collider / 2D BVH / edge-pair broad phase / k-d tree compared with an all-pairs scan; small lattice configurations enumerated exhaustively",
            "note": "exhaustive only for the 3-point lattice sub-space; sampled beyond", "technique": PBT + " differential against brute force, plus exhaustive enumeration of a small sub-space"},
}
MANIFEST_TEXT["C12"] = {"text": "Offset judged against own distance-to-region / distance-to-complement (Round exactly outside the chordal band; all joins by containment, reach, monotonicity, regularity); Hull vs own monotone chain; Decompose and Simplify by their stated structural invariants",
                        "note": "sampled points; regions of a few constructed families with known feature sizes", "technique": PBT + " against a distance-field reference and structural predicates"}
MANIFEST_TEXT["C18"] = {"text": "every measurement/query getter compared with a brute-force definition evaluated on the exported mesh (signed tetrahedra, Moeller-Trumbore, solid-angle winding, all-pairs triangle distance, union-find components)",
                        "note": "generic query arguments by construction/skip rule; meshes <= a few thousand triangles", "technique": PBT + " differential against brute-force reference implementations"}
MANIFEST_TEXT["C17"] = {"text": "analytic membership of every constructor (with derived faceting bands) and the documented point map of every transform compared with a solid-angle winding number on the export; documented-invalid arguments; Quality segment rules",
                        "note": "sampled points, 60% of them concentrated just off the surface", "technique": PBT + " against analytic reference models and metamorphic transform relations"}
MANIFEST_TEXT["C16"] = {"text": "Hull judged by vertex-subset, containment and closed-manifold predicates with exact integer rank deciding degeneracy; Minkowski sum/difference judged point-wise by the dilation/erosion definitions with an independent winding number",
                        "note": "sampled points; small structuring solids (<=40 triangles)", "technique": PBT + " with validity predicates and a set-theoretic reference"}
MANIFEST_TEXT["C19"] = {"text": "Refine*/Simplify/SetTolerance judged by metamorphic invariants (volume, area, vertex retention, on-surface, n*n count, Refine(n) subset of Refine(2n)) and the closed-manifold predicate; every subdivision pattern up to a bound enumerated and checked to tile its triangle/quad",
                        "note": "patterns exhaustive up to triples<=12 / quadruples<=6 (thorough 24 / 10); meshes sampled", "technique": PBT + " with metamorphic relations, plus exhaustive enumeration of subdivision patterns"}
MANIFEST_TEXT["C08"] = {"text": "export -> import -> export compared as numbering-independent sorted triangle records over every MeshGL field (both precisions), refinement equivalence, Merge() recovery and exact OBJ round trip, over Manifolds reached by generated programs",
                        "note": "sampled programs of <= 9 steps; meshes <= 1500 triangles", "technique": PBT + " with round-trip oracles"}
MANIFEST_TEXT["C03"] = {"text": "each generated expression DAG executed five ways (eager, lazy, generated forcing history, algebraic rewrites, shared-first); differential agreement plus agreement with the set formula evaluated from the leaves by an independent winding number",
                        "note": "sampled DAGs of <= 7 leaves; classification at sampled guarded points", "technique": PBT + " differential/metamorphic testing across evaluation strategies"}
MANIFEST_TEXT["C05"] = {"text": "model-based histories over a growing pool: every observed Manifold/CrossSection keeps a byte-identical fingerprint (all getters and both exports) after every later operation, copies equal their source, late first observation equals early observation",
                        "note": "sampled histories of <= 24 steps; first observation happens at generated times", "technique": PBT + " (stateful, model-based: fingerprint map as reference model)"}
MANIFEST_TEXT["C09"] = {"text": "structure-aware mutation of valid MeshGL exports, boundary-value arguments for every constructor/operation, malformed polygons/points/OBJ text, followed by programs of operations; judged by sanitizers, an exception trap, the closed-manifold-or-empty-error predicate and error stickiness; the same decoder runs under rapidcheck (seed-pure) and libFuzzer (coverage-guided, thorough tier)",
                        "note": "quick tier is generated search only; libFuzzer campaigns pin only approximately (the saved artefact is the reproducible unit)", "technique": PBT + " and coverage-guided fuzzing (libFuzzer) with an in-target semantic oracle"}
MANIFEST_TEXT["C15"] = {"text": "fault injection at every cancellation-check site: an uncancelled run counts the checks through a guarded probe in IsCancelled, then Cancel() is injected at the k-th check for every k (or a spread of k for long runs) and the all-or-nothing / sticky / propagating / operands-untouched / context-short-circuit / progress-monotone contract is judged",
                        "note": "check sites enumerated per program (all of them for K<=40, first/last 8 + 24 generated beyond); programs sampled", "technique": PBT + " with systematic fault (cancellation) injection through a guarded hook"}
HOOK_COMMITS = ["e9772b10", "7221178c"]
MANIFEST_TEXT["C13"] = {"text": "every parallel primitive called with the Par policy compared byte-for-byte with the std:: algorithm under generated legal TBB schedules (mock TBB: splits, chunk order, worker slots, reduce/scan body splitting) and under real oneTBB; union-find and hash table run under a controlled scheduler that owns every atomic access, generated and, for small configurations, enumerated up to a preemption bound",
                        "note": "schedules sampled (enumerated only for 8 small container configurations with <=2/3 preemptions)", "technique": PBT + " differential against std algorithms with schedule generation; controlled-scheduler interleaving exploration"}
MANIFEST_TEXT["C04"] = {"text": "byte fingerprints of every exported field compared across reruns, generated legal TBB schedules and arena widths (mock TBB), real worker counts, and the serial backend in a separate process, over programs that cross the serial/parallel size gates",
                        "note": "schedules and programs sampled; large (>1e5) class only in the thorough tier", "technique": PBT + " differential testing across schedules/backends with a schedule-owning TBB replacement"}
MANIFEST_TEXT["C07"] = {"text": "exported runs, transforms, face IDs, orientation and per-corner property values of Boolean/Refine results judged against harness-built originals (reserved IDs, face IDs, affine or per-vertex property fields) and the generated instance transforms",
                        "note": "sampled programs of 2-4 instances; geometry checked at every corner of every triangle", "technique": PBT + " against a reference model of provenance (inputs + generated transforms)"}
MANIFEST_TEXT["C20"] = {"text": "generated programs of C API calls mirrored call-for-call in C++; every result read back through the C accessors into exact-size buffers and compared bitwise with the C++ twin; storage is exactly <type>_size() bytes (or manifold_alloc_*), every object destructed/deleted once; allocations made inside C calls tracked by sanitizer malloc hooks and confirmed with LeakSanitizer; callbacks verify the user pointer; under ASan+UBSan",
                        "note": "sampled programs of 3-14 steps; covers every exported function group except none (see evidence counters fn:*)", "technique": PBT + " as a differential test against the C++ API"}
MANIFEST_TEXT["C06"] = {"text": "generated shared lazy Manifolds/CrossSections/ExecutionContext used by 2-8 real threads running generated programs of const queries, copies, assignments, derived expressions, ID reservation and cancel/poll, in a ThreadSanitizer build (halt on first report) whose only threads are the client threads; per-op fingerprints compared with sampled serial executions; reserved ID ranges disjoint, fresh IDs unique",
                        "note": "OS-produced schedules, sampled; race reports are schedule-dependent (replays retried 6-8 times)", "technique": PBT + " over thread programs with ThreadSanitizer as race oracle and a serial-execution reference model"}
NOT_CLAIMED = {}
